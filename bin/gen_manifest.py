#!/usr/bin/env python3
"""Regenerates MANIFEST.json from bin/manifest_conf.py (kept valid at all times)."""
import json, os, sys
sys.path.insert(0, os.path.dirname(os.path.abspath(__file__)))
from manifest_conf import CLAIMS, PENDING
props = [json.loads(l) for l in open('/verif/properties.jsonl')]
checks = []
for p in props:
    pid = p['id']
    if pid in CLAIMS:
        c = CLAIMS[pid]
        checks.append({
            "property_id": pid,
            "quick_cmd": "bin/check %s --tier quick" % pid,
            "thorough_cmd": "bin/check %s --tier thorough" % pid,
            "evidence_file": "/verif/evidence/%s.json" % pid,
            "replay_cmd_template": "bin/check %s --replay {path}" % pid,
            "engine": c["engine"],
            "level_claimed": {"category": c["level"], "text": c["text"], "design_ref": c["design_ref"]},
            "level_note": c["note"],
            "technique": c["technique"],
        })
na = [{"property_id": p['id'], "reason": PENDING.get(p['id'], "no check built yet")} for p in props if p['id'] not in CLAIMS]
m = {
    "version": 1,
    "setup_cmd": "bin/setup",
    "hooks": {
        "guard": "none: no source hooks; instrumentation is a generated go build overlay (sim/overlaygen) over /repo's working tree",
        "enable": "bin/check runs sim/overlaygen and builds the harness with `go test -c -overlay=<generated overlay.json>`; /repo itself is never modified",
        "baseline_off_cmd": "cd /repo && GOFLAGS=-mod=mod GOPROXY=off GOSUMDB=off go test -vet=off -count=1 -timeout 25m ./...",
        "source_commits": [],
        "add_only": True,
    },
    "engines": [
        {"name": "seqsim", "path": "sim/harness (c10,c11,c12,c16)", "serves_properties": ["C10", "C11", "C12", "C16"],
         "kind_free_text": "one real component driven by a seeded history of API operations with restart/crash/lost-write operations at its storage seam (simfs), compared step by step with an executable reference model"},
        {"name": "schedsim", "path": "sim/simrt + sim/harness (c14,c17,c18,c20)", "serves_properties": ["C14", "C17", "C18", "C20"],
         "kind_free_text": "cooperative deterministic scheduler over the real goroutines of one component: every go statement, lock, select, timer and context deadline of the rewritten repo files is decided by the seed"},
        {"name": "chainsim", "path": "sim/harness/chain", "serves_properties": ["C01", "C02", "C03", "C04", "C05", "C06", "C07", "C08", "C09", "C13", "C15", "C19"],
         "kind_free_text": "N real nodes (chain, consensus executer, Lisk-BFT, certificate pool, syncer, generator, tx pool, ABI handler + state machine, pebble on simfs) in one process on a discrete-event loop with a simulated network, clock, disk and Byzantine adversary"},
    ],
    "checks": checks,
    "not_applicable": na,
    "notes": "Deterministic simulation with fault injection; rapid v1.3.0 is the single choice source (its .fail file is the replay artefact). See DESIGN.md. Properties listed under not_applicable with reason 'check under construction' are not claimed yet by this commit.",
}
json.dump(m, open('/verif/MANIFEST.json', 'w'), indent=1)
print("MANIFEST.json written:", len(checks), "checks,", len(na), "not claimed")
