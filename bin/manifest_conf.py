CLAIMS = {
    "C12": {
        "engine": "seqsim", "level": "exploration", "design_ref": "4/C12, A.6",
        "technique": "deterministic simulation: seeded operation+crash histories against a sorted-map reference model (refinement), simulated disk",
        "text": "Seeded exploration of operation histories over the real db/diffdb/pebble stack on a simulated disk, each read compared with an executable sorted-map model, "
                "commit/revert compared by full database dump, and a crash (power loss or kill, optionally torn) injected inside the batch write with before/after-image check. "
                "Sampling, not proof: a clean batch is evidence over the explored histories only.",
        "note": "Trusted: the sorted-map model (DESIGN A.6), pebble's strict MemFS as the durability model, rapid as PRNG/shrinker. limit=0 is unspecified and not exercised.",
    },
}
PENDING = {}
