CLAIMS = {
    "C12": {
        "engine": "seqsim", "level": "exploration", "design_ref": "4/C12, A.6",
        "technique": "deterministic simulation: seeded operation+crash histories against a sorted-map reference model (refinement), simulated disk",
        "text": "Seeded exploration of operation histories over the real db/diffdb/pebble stack on a simulated disk, each read compared with an executable sorted-map model, "
                "commit/revert compared by full database dump, and a crash (power loss or kill, optionally torn) injected inside the batch write with before/after-image check. "
                "Sampling, not proof: a clean batch is evidence over the explored histories only.",
        "note": "Trusted: the sorted-map model (DESIGN A.6), pebble's strict MemFS as the durability model, rapid as PRNG/shrinker. limit=0 is unspecified and not exercised.",
    },
}
CLAIMS["C10"] = {
    "engine": "seqsim", "level": "exploration", "design_ref": "4/C10, 5, A.4",
    "technique": "deterministic simulation (weak fit): seeded update/lost-batch/reopen histories at the node-store seam against a naive LIP-0039 reference root; proof tampering as the fault",
    "text": "Seeded exploration of update/delete batch histories of the real sparse Merkle trie with lost write batches and reopen at the storage seam; after every step the root is compared with a "
            "naive recursive LIP-0039 root of the model map, the same map is rebuilt in another order, generated proofs must verify and agree with the map, and single-field tamperings of proofs that still verify "
            "must not change any claim. Proof soundness for a fixed tree is a pure function and only rides along (DESIGN 5).",
    "note": "Trusted: refmodel.SMTRoot (DESIGN A.4). Values are 32-byte hashes or empty. Sampling only.",
}
CLAIMS["C11"] = {
    "engine": "seqsim", "level": "exploration", "design_ref": "4/C11, 5, A.5",
    "technique": "deterministic simulation (weak fit): seeded append/update/proof/witness/reload histories on one long-lived tree against a naive LIP-0031 reference root",
    "text": "Seeded exploration of histories on one long-lived regular Merkle tree (appends around powers of two, in-place updates, proofs, right witnesses, predicted appends, reload from the store), "
            "root and size compared with a naive LIP-0031 root after every mutation, proofs checked for completeness and for failing on other data/root. The history clauses fit the family through the storage seam; "
            "per-tree proof correctness only rides along (DESIGN 5).",
    "note": "Trusted: refmodel.RMTRoot (DESIGN A.5). Unique leaves. Sampling only.",
}
CLAIMS["C16"] = {
    "engine": "seqsim", "level": "exploration", "design_ref": "4/C16, A.4",
    "technique": "deterministic simulation: seeded block/transaction/revert/restart histories with crash injection inside Commit against a model state map, model event log and naive SMT root",
    "text": "Seeded exploration of command programs and commit/revert/restart sequences over the real ABI handler, state machine, staged store and state tree on a simulated disk; per transaction the returned "
            "events and result, per commit the state DB dump and the root (naive LIP-0039 root with deleted keys absent), per revert the previous dump and root, per restart the roll-back to the engine tip, and a crash "
            "at drawn file-system calls inside Commit with before/after-image check and recovery. Sampling, not proof.",
    "note": "Trusted: the model in harness/c16 and refmodel.SMTRoot. The application is the simulation module; the handler is called in-process with the Consensus field filled in.",
}
CLAIMS["C14"] = {
    "engine": "schedsim", "level": "exploration", "design_ref": "2.2, 4/C14",
    "technique": "deterministic simulation: seeded goroutine interleavings (every lock/go/select/timer a scheduler decision) of the real transaction pool, index invariants at lock-free quiescent instants, stuck detection",
    "text": "The real pool runs under a cooperative deterministic scheduler that decides every lock acquisition, goroutine start, select and timer from the seed; client tasks issue drawn operations with limits from 1 upwards. "
            "At every quiescent instant with no pool lock held the three indexes, the limits, replacement and the processable runs are checked against the model verifier; a run in which some call never returns (lock-wait cycle, "
            "self-deadlock) is a violation with the wait graph. Sampling of schedules, not exhaustive.",
    "note": "Trusted: the lock model in simrt (Go semantics incl. writer preference), the invariant checker in harness/c14, the model verifier.",
}
CLAIMS["C17"] = {
    "engine": "schedsim", "level": "exploration", "design_ref": "2.5, 4/C17",
    "technique": "deterministic simulation: seeded interleavings of concurrent requests/handlers/timeouts/cancellations over a simulated transport with delay, loss, duplication and stalled threads; history checked for correlation, bounded duration, no lost in-time reply, no leak, no deadlock",
    "text": "The real request/response protocol runs on a simulated libp2p host under the deterministic scheduler; the recorded history of calls, attempts (request ids observed on the wire) and response deliveries is checked after the run. "
            "Stuck detection reports the lock-wait graph and native blocking stacks. Sampling of schedules and fault scripts.",
    "note": "Trusted: simhost's model of libp2p streams (reliable unless the script drops), the lock model, the history checker. libp2p itself is not executed.",
}
CLAIMS["C18"] = {
    "engine": "schedsim", "level": "exploration", "design_ref": "4/C18, A.7",
    "technique": "deterministic simulation: seeded sequences of penalties, malformed traffic, rate-limit bursts, clock advances/jumps and dials against a reference ban model, with the gater sweeper and rate-limit reset goroutines under the scheduler",
    "text": "The real gater, penalty and rate-limit code runs on the simulated host and clock; every gate decision, disconnect and score is compared with a small reference model that has one sweep interval of slack around ban expiry. Sampling.",
    "note": "Trusted: the ban model (DESIGN A.7), simhost's imitation of the order in which the libp2p swarm consults the gater. Real libp2p is not executed.",
}
CLAIMS["C20"] = {
    "engine": "schedsim", "level": "exploration", "design_ref": "2.6, 4/C20",
    "technique": "deterministic simulation under the Go race detector: seeded interleavings of reader/writer tasks on the shared chain structures; happens-before race reports, lock-model deadlock detection (writer preference), porcupine linearizability of tip reads",
    "text": "The shared structures run under the cooperative scheduler in a -race build in which the kernel's own synchronisation is hidden from the detector, so each report is a pair of accesses the program itself left unordered on a schedule that the seed reproduces. "
            "The RWMutex model reproduces Go's writer preference, which is what turns a re-entrant read lock into a detected deadlock. Sampling of schedules.",
    "note": "Trusted: Go's race detector, the lock model, porcupine v1.3.0. Non-preemptive scheduling: code between two synchronisation points runs atomically, so lost updates show up as race reports rather than as wrong results.",
}

_chain_note = "Trusted: the reference models of DESIGN Appendix A (refmodel/bft.go etc.), the p2p stub's gossip/RPC model, simfs. Sampling of histories; each node processes events sequentially."
CLAIMS["C01"] = {"engine": "chainsim", "level": "exploration", "design_ref": "4/C01", "technique": "deterministic simulation of whole nodes: seeded fork shapes from partitions, delays, loss, crashes, validator changes; global one-id-per-finalized-height invariant across all views and times",
    "text": "Whole real nodes on a simulated network; every height any view reports as final is recorded globally and a second id for a height is a violation, provided the premise (honest validators non-contradicting, standard thresholds) holds, which is itself monitored.", "note": _chain_note}
CLAIMS["C02"] = {"engine": "chainsim", "level": "exploration", "design_ref": "4/C02, A.1", "technique": "deterministic simulation + refinement: every node's BFT store compared after every applied block with an independent executable LIP-0058 model evaluated on the simulator's fork tree",
    "text": "Refinement check of the real Lisk-BFT module against a naive persistent reference model over the histories the simulated network produces (forks, syncs, validator changes, chains longer than the window).", "note": _chain_note}
CLAIMS["C04"] = {"engine": "chainsim", "level": "exploration", "design_ref": "4/C04", "technique": "deterministic simulation: finalized-height monotonicity / stability invariants observed synchronously with every applied block, across reorgs, syncs, failed syncs and restarts",
    "text": "Invariants on the stored finalized height, the ids served at finalized heights and the finalize events, evaluated inside the executer's event publication (state exactly as the operation left it).", "note": _chain_note}
CLAIMS["C05"] = {"engine": "chainsim", "level": "exploration", "design_ref": "4/C05", "technique": "deterministic simulation: byte-level database dump comparison before apply / after delete for every deletion the system performs",
    "text": "Every tip deletion the nodes perform themselves is followed, synchronously, by a full blockchain-DB dump comparison with the dump recorded before the deleted block was applied.", "note": _chain_note}
CLAIMS["C15"] = {"engine": "chainsim", "level": "exploration", "design_ref": "4/C15", "technique": "deterministic simulation: own-validation of every generated block and pairwise non-contradiction of all headers a key signs across chain switches, failed syncs and restarts",
    "text": "The real generator runs on every node over pools fed by a client workload; each block it hands on must be accepted by the node's own processing, its payload must follow the selection rule (per-sender nonce order, fee priority among the senders' next transactions, failed senders skipped, size limit, no early stop) evaluated on the pool and account nonces observed right before generation, and the generator DB is read after every forge to collect the signed header triples, which must be pairwise non-contradicting. The workload includes transactions whose command fails (valid, kept in the block, effects discarded) and transactions that verify but whose execution is INVALID (refused by a hook after the command): these must be left out with their sender and leave no trace in the state the block's roots are computed from.", "note": _chain_note}
CLAIMS["C13"] = {"engine": "chainsim", "level": "exploration", "design_ref": "4/C13", "technique": "deterministic simulation with crash injection: process death at drawn file-system calls inside block commit/removal (torn write, power loss or kill, I/O error, crash during recovery) on a simulated disk; restarted node compared key for key with the before/after image of a fault-free twin",
    "text": "The chain operations a simulated network produces are replayed on a victim node whose disk dies at a drawn file-system call inside processValidated/deleteBlock; after restart the blockchain DB must equal the fault-free twin's before- or after-image, the node must start and report the matching tip, BFT heights, finalized height and application state. Sampling of crash points and histories.",
    "note": "Trusted: pebble's strict MemFS as the durability model, simfs (crash = frozen goroutines + released descriptors), the twin as image source. Background compactions are off."}
CLAIMS["C19"] = {"engine": "chainsim", "level": "exploration", "design_ref": "4/C19", "technique": "deterministic simulation of whole nodes syncing among themselves under partitions, long outages, RPC faults, a Byzantine validator and phantom peers: handler responses checked against the responder's chain, peer choice against the selection rule on the answers received, fast-switch end states, and bounded convergence once faults stop",
    "text": "Every sync RPC between the simulated nodes is observed: un-faulted handler responses are compared with the responder's own chain, the peer chosen by a block sync with the selection rule evaluated on the tips it was told (incl. fabricated tips of phantom peers), a fast chain switch must end on the new or the old tip and ban the peer after a roll-back; after the fault phase a fault-free phase of 4 rounds must leave all honest nodes on one chain. Sampling of histories.",
    "note": _chain_note + " Goroutine interleavings inside the sync code are not explored (they run in place)."}
CLAIMS["C03"] = {"engine": "chainsim", "level": "exploration", "design_ref": "4/C03", "technique": "deterministic simulation with a tampering-peer fault: single-rule, correctly re-signed mutants of valid successors offered to whole nodes in reachable states; full database dump, tip and event comparison after each rejection",
    "text": "Nodes of a simulated network (forks, syncs, validator changes, restarts) are offered single-rule mutants of blocks that are valid successors of their current state; each mutant must be rejected leaving tip, blockchain DB, application state DB and published chain events exactly as they were. The payload rules are decided through the Byzantine generator: blocks valid in everything but the payload size (built with four times the limit), twins carrying a statically invalid transaction with all roots recomputed, and blocks announced with one payload and served to synchronizing nodes with another; every block an honest node appends, whichever way it came, must have a payload within the limit, of statically valid transactions, matching its transaction and asset roots. Sampling of states and mutants.",
    "note": _chain_note + " The valid-successor premise rests on the block being signed by an honest validator and linking to the node's tip."}
CLAIMS["C06"] = {"engine": "chainsim", "level": "exploration", "design_ref": "4/C06", "technique": "deterministic simulation of whole nodes certifying and aggregating among themselves, plus a certificate-forger fault: aggregate and single commits built from drawn heights, signer subsets and tamperings whose admissibility is known by construction, compared with the node's verdict; own-aggregate self-check after every generator tick",
    "text": "Nodes run the real certificate pipeline on chains that leave the first 100 heights; every aggregate commit a node would embed must pass its own verification, forged aggregate commits must be accepted exactly when construction says they are admissible (incl. the next-parameter bound and the weight threshold), and forged single commits must not enter the pool unless valid. Sampling of chain positions, subsets and tamperings.",
    "note": _chain_note + " BLS primitives trusted; zero-padded aggregation bits give no verdict."}
CLAIMS["C07"] = {"engine": "chainsim", "level": "exploration", "design_ref": "4/C07, 5", "technique": "deterministic simulation with a Byzantine validator, late/withheld blocks and clock skew: every received block classified by a reference LIP-0014 fork choice (incl. receive slots) and compared with the node's reaction; contradiction predicate compared in both argument orders with a reference predicate on all header pairs the histories produce",
    "text": "History- and time-dependent clauses of C07 on whole simulated nodes: fork-choice classification of every processed block against a reference rule, symmetry/agreement of the contradiction predicate on header pairs from honest and Byzantine generators, no contradicting header applied, no honest header flagged. The exhaustive small-range enumeration of header pairs is not done (pure function, outside the technique).",
    "note": _chain_note + " Header pairs are those the simulated histories produce, not all pairs."}
CLAIMS["C09"] = {"engine": "chainsim", "level": "exploration", "design_ref": "4/C09, 5", "technique": "deterministic simulation with hostile-peer faults: corrupted copies of real payloads and crafted messages injected into every gossip validator/handler and RPC handler of whole running nodes, corrupted sync responses, well-signed invalid blocks; a panic or an endless request loop inside a node step is the verdict",
    "text": "Whole nodes under normal traffic receive corrupted and crafted gossip and RPC payloads at every network-facing entry point of consensus, sync and transaction pool; the process model of the simulator turns a panic or a non-terminating step into a violation. Second part: the real pkg/p2p request/response layer facing hostile envelopes. Third part: the hostile peer's mutators (incl. damage inside nested fields with fitted length prefixes) against every network-facing decoder and the RMT/SMT proof verifiers in isolation, with panic, allocation (bounded by the input size) and time oracles. Sampling of corruptions; the HTTP RPC server is not in this harness.",
    "note": _chain_note + " Not exhaustive over byte strings; libp2p and gossipsub themselves are not run."}
PENDING = {"C08": "no schedule, clock, fault or interleaving in it: codec round trip, canonical strict decoding, ID stability and Lisk32 conversion are pure functions of one input value; deciding them means generating values and byte strings (property-based input generation), which this technique family does not do. The simulated runs do push every block, transaction, single commit, sync message and ABI request/response through the real codecs (wire, disk and ABI loopback), and a decode/encode disagreement there would surface as a rejected honest block or a diverging state in the C02/C03/C05/C13 oracles, but that is incidental coverage of the values runs happen to produce, not a decision of C08."}
