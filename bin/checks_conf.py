# Per-property configuration of bin/check. Only facts about how a check is run and what it ran; the oracles
# live in sim/harness/<pkg>.
CHECKS = {
    "C12": {
        "profile": "seqsim", "pkg": "c12", "test": "TestC12", "level": "exploration",
        "quick": {"workers": 8, "checks": 12000}, "thorough": {"workers": 14, "checks": 120000},
        "timeout": {"quick": "10m", "thorough": "3h"},
        "rule": "seeded histories (rapid) of <=40 operations over one pebble DB on the simulated disk and a diffdb.Database with up to 4 prefix views: "
                "set/del/get/has/range/iterate (fwd/rev, limits -1/1/2/3, colliding keys of different lengths), snapshot/restore/delete-snapshot, "
                "direct db range/prefix scans, commit+write (optionally crashing inside the batch write, power loss or process kill, torn write) and RevertDiff; "
                "every read compared with a sorted-map model. A history is non-trivial if it contains a delete, a restore, a commit or a non-empty range; distinct = distinct histories",
        "real": ["pkg/db (DB, Batch, iterators)", "pkg/db/diffdb", "pebble (WAL, memtable, recovery)"],
        "stub": ["file system: simfs (pebble strict MemFS + crash/tear injection)"],
        "probes": ["restore", "revert", "crash_before_image", "crash_after_image"],
        "assumptions": ["limit 0 is unspecified and not exercised", "the sorted-map model in harness/c12 (DESIGN A.6) is the trusted reference",
                        "crash = all threads of the process stop at a numbered simfs call; power loss drops un-synced data and directory entries"],
    },
}
