# Per-property configuration of bin/check. Only facts about how a check is run and what it ran; the oracles
# live in sim/harness/<pkg>.
CHECKS = {
    "C12": {
        "profile": "seqsim", "pkg": "c12", "test": "TestC12", "level": "exploration",
        "quick": {"workers": 8, "checks": 12000}, "thorough": {"workers": 14, "checks": 120000},
        "timeout": {"quick": "10m", "thorough": "3h"},
        "rule": "seeded histories (rapid) of <=40 operations over one pebble DB on the simulated disk and a diffdb.Database with up to 4 prefix views: "
                "set/del/get/has/range/iterate (fwd/rev, limits -1/1/2/3, colliding keys of different lengths), snapshot/restore/delete-snapshot, "
                "direct db range/prefix scans, commit+write (optionally crashing inside the batch write, power loss or process kill, torn write) and RevertDiff; "
                "every read compared with a sorted-map model. A history is non-trivial if it contains a delete, a restore, a commit or a non-empty range; distinct = distinct histories",
        "real": ["pkg/db (DB, Batch, iterators)", "pkg/db/diffdb", "pebble (WAL, memtable, recovery)"],
        "stub": ["file system: simfs (pebble strict MemFS + crash/tear injection)"],
        "probes": ["restore", "revert", "crash_before_image", "crash_after_image"],
        "assumptions": ["limit 0 is unspecified and not exercised", "the sorted-map model in harness/c12 (DESIGN A.6) is the trusted reference",
                        "crash = all threads of the process stop at a numbered simfs call; power loss drops un-synced data and directory entries"],
    },
    "C10": {
        "profile": "seqsim", "pkg": "trie", "test": "TestC10", "level": "exploration", "env": {"VERIF_PROP": "C10"},
        "quick": {"workers": 8, "checks": 6000}, "thorough": {"workers": 14, "checks": 150000},
        "timeout": {"quick": "10m", "thorough": "3h"},
        "rule": "seeded histories (rapid) of <=14 operations over the real sparse Merkle trie on a map store with a droppable write buffer: update batches (insert/overwrite/delete, "
                "keys of length 1/2/3/32/38 from three families: uniform, long shared prefix, differences at 8-bit subtree boundaries), lost batch (node writes dropped, trie "
                "continues from the previous root), reopen from stored nodes, rebuild of the same map in another order/batching, and prove+verify of query sets with present and "
                "absent keys followed by 3 single-field tamperings of the decoded proof. Non-trivial = history contains a delete or a proof; distinct = distinct histories",
        "real": ["pkg/trie/smt (Update, Prove, Verify, subtree encoding)", "smt.Proof codec"],
        "stub": ["node store: in-memory map with a droppable write buffer (the storage seam)"],
        "probes": ["reopen", "tamper_still_valid_but_true"],
        "assumptions": ["values are 32-byte hashes or empty (=delete), as every caller in the repository uses the trie", "no duplicate keys inside one batch (their meaning is unspecified)",
                        "reference root: refmodel.SMTRoot, written from the LIP-0039 definition (DESIGN A.4)", "SetSubtreeHeight(4) is not exercised (no caller in the repository)",
                        "the leaf a non-inclusion proof names on the query's path is not treated as a claim about the map"],
    },
    "C11": {
        "profile": "seqsim", "pkg": "trie", "test": "TestC11", "level": "exploration", "env": {"VERIF_PROP": "C11"},
        "quick": {"workers": 8, "checks": 5000}, "thorough": {"workers": 14, "checks": 120000},
        "timeout": {"quick": "10m", "thorough": "3h"},
        "rule": "seeded histories (rapid) over one long-lived RegularMerkleTree on a map store: start length 0..40 or 2^k-1/2^k/2^k+1 (k<=7) reached by single appends, then <=12 operations: "
                "append (each preceded by CalculateRootFromAppendPath prediction), inclusion proof for a leaf subset (verify, altered leaf, other root, tampered proof, update-through-proof), "
                "in-place Update, right witness at a drawn position against the append path recorded at that size, reload from storage. Root/size compared with the LIP-0031 reference after every mutation. "
                "Non-trivial = history contains a proof, update, witness or reload; distinct = distinct histories",
        "real": ["pkg/trie/rmt (Append, Update, GenerateProof, GenerateRightWitness, VerifyProof, CalculateRoot*, reload)"],
        "stub": ["node store: in-memory map (the storage seam)"],
        "probes": ["reload"],
        "assumptions": ["leaf data are unique (the tree indexes nodes by hash)", "reference root: refmodel.RMTRoot written from the LIP-0031 definition (DESIGN A.5)",
                        "right witnesses are only checked while no in-place Update happened (recorded append paths are stale afterwards by design)"],
    },
    "C16": {
        "profile": "seqsim", "pkg": "c16", "test": "TestC16", "level": "exploration",
        "quick": {"workers": 8, "checks": 5000}, "thorough": {"workers": 14, "checks": 100000},
        "timeout": {"quick": "15m", "thorough": "4h"},
        "rule": "seeded histories (rapid) of <=8 operations over the real ABI handler + state machine + diff store + state SMT with the state DB on the simulated disk: "
                "block = InitStateMachine, BeforeTransactionsExecute, 0-4 transactions whose command is a drawn program (sets/deletes/overwrites over 2 stores x 2 sub-stores from a 20-key universe, "
                "revertible/unrevertible events, success or failure; 1/10 with a wrong nonce), AfterTransactionsExecute, optional dry-run commit, Commit (1/4 with a crash at a drawn file-system call, power loss or kill, torn write); "
                "revert of the tip block; restart with the engine at the application's height or one block behind. State DB dump, returned events, state roots compared with a model map and a naive SMT root. "
                "Non-trivial = a block with transactions, a revert, a restart or a crash; distinct = distinct histories",
        "real": ["pkg/framework (ABIHandler, stateSMTBatch)", "pkg/statemachine (Executer, EventLogger, contexts)", "pkg/db/diffdb", "pkg/trie/smt", "pkg/db + pebble"],
        "stub": ["application module: simmod (one command executing a program from the transaction params)", "file system: simfs", "ABI transport (handler called directly, Consensus field supplied by the harness)"],
        "probes": ["revert", "restart_app_ahead", "crash_before_image", "crash_after_image"],
        "assumptions": ["reference root: refmodel.SMTRoot over {prefix||H(key) -> H(value)} (DESIGN A.4)", "an invalid transaction ends the block (the engine drops the context)",
                        "hook effects (nonce increment in BeforeCommandExecute) are outside the command's snapshot, as in the real auth module"],
    },
    "C14": {
        "profile": "txpool", "pkg": "c14", "test": "TestC14", "level": "exploration",
        "quick": {"workers": 8, "checks": 2500}, "thorough": {"workers": 14, "checks": 60000},
        "timeout": {"quick": "20m", "thorough": "5h"},
        "rule": "schedsim: the real pkg/txpool (Start loop, Add/Remove/Get*/reorg with its per-sender goroutines) under the deterministic kernel; per run 1-4 client tasks x 1-10 drawn operations "
                "(add with nonce gaps, duplicates and replacement fees around MinReplacementFeeDifference; remove; get; getall; getprocessable; block-applied notification) over 1-3 senders, pool limit 1-8, per-sender limit 1-5, "
                "a model verifier (account nonce: ok/pending/invalid + drawn invalid ids); every lock acquisition, go statement, select and the 500 ms promotion ticker is a scheduling decision drawn from the seed. "
                "Index invariants are evaluated at every quiescent instant at which no pool lock is held; a stuck run or unfinished client calls are a liveness violation. distinct = distinct (schedule hash, history) pairs",
        "real": ["pkg/txpool (txpool.go, txlist.go, heap.go, fee.go)"],
        "stub": ["ABI verifier (model: account nonce per sender)", "p2p connection (records publishes)", "clock, goroutine scheduling, sync primitives (kernel)"],
        "distinct_measure": "FNV-64 over the sequence of (scheduled task, park kind) decisions combined with the recorded operation history",
        "assumptions": ["map iteration over perAccount is canonicalised (sorted keys) by the overlay so that the spawn order of reorg goroutines is a function of the seed",
                        "the verifier never changes its answer for a transaction id except through the account nonce, which only grows"],
    },
    "C17": {
        "profile": "p2p", "pkg": "p2psim", "test": "TestC17", "level": "exploration", "env": {"VERIF_PROP": "C17"},
        "quick": {"workers": 8, "checks": 450}, "thorough": {"workers": 14, "checks": 40000},
        "timeout": {"quick": "20m", "thorough": "5h"},
        "rule": "schedsim: 2-3 simulated peers each running the real MessageProtocol (+ rate limiter, connection gater, Peer) over the simulated libp2p host; 1-8 concurrent RequestFrom calls with unique payloads, "
                "handler latency 0 / 1-500 ms / around the 3 s timeout / beyond it, 1/5 of the callers cancel at a drawn instant; per message a pre-drawn network decision (latency 0, 1-80 ms, ~timeout/2, > timeout; in lossy runs drop 1/10, "
                "duplicate 1/8 with a gap up to 4 s); in half of the runs the requester threads or the handler threads are stalled (scheduled only when nothing else can run). Every lock, go statement, select, timer and context deadline is decided by the seed. "
                "Checked over the recorded history: every call returns within (retries+1) x timeout, returned data is the handler's output for that call's payload, a response that reached the requester before its attempt's deadline is not lost, no pending entry is left, nothing is stuck. "
                "distinct = distinct schedule hashes",
        "real": ["pkg/p2p message_protocol.go, message.go, rpc.go, ratelimit.go, conngater.go, peer.go (Peer methods)", "request/response codecs"],
        "stub": ["libp2p host/swarm/streams (simhost: one stream = one message)", "gossipsub, NAT, relay, discovery (not run)", "clock, scheduling, uuid (kernel)"],
        "distinct_measure": "FNV-64 over the sequence of (scheduled task, park kind) decisions of the run",
        "assumptions": ["a node is infinitely fast relative to the clock except for explicitly stalled threads: simulated time advances only when no task can run",
                        "1 ms margin around deadlines, where the order of events at the same instant is a scheduling choice"],
    },
    "C18": {
        "profile": "p2p", "pkg": "p2psim", "test": "TestC18", "level": "exploration", "env": {"VERIF_PROP": "C18"},
        "quick": {"workers": 8, "checks": 1200}, "thorough": {"workers": 14, "checks": 40000},
        "timeout": {"quick": "20m", "thorough": "5h"},
        "rule": "schedsim: one node (real connection gater with its sweeper goroutine, Peer.addPenalty/banPeer, rate limiter with its reset goroutine, MessageProtocol.onRequest) over the simulated libp2p host, four remote peers "
                "(two sharing an IPv4 address, one IPv6, one optionally permanently blacklisted); 1-14 drawn events: penalty (10/40/60/99/100), malformed envelope, unknown procedure, bursts of well-formed traffic around the per-procedure rate limit, "
                "clock advance (1 s .. 1 day; above 200 s as a clock jump), inbound/outbound dial. Compared with the reference ban model (score per IP, ban at >=100 for the configured expiry 30 s/2 min/1 h, one sweep interval of slack, "
                "no verdict for an IP penalised inside the slack window). distinct = distinct event logs",
        "real": ["pkg/p2p conngater.go, peer.go (addPenalty, banPeer, Disconnect), ratelimit.go, message_protocol.go (onRequest)"],
        "stub": ["libp2p host/swarm (simhost consults the gater's Intercept* methods in the swarm's order)", "clock and scheduling (kernel)"],
        "assumptions": ["simhost reports the remote multiaddr without /p2p part, as libp2p connections do", "reference ban model DESIGN A.7"],
    },
    "C20": {
        "profile": "chainrace", "pkg": "c20", "test": "TestC20", "level": "exploration", "race": True, "gomaxprocs": 4,
        "env": {"GORACE_TEMPLATE": "halt_on_error=0 suppress_equal_stacks=0 suppress_equal_addresses=0 log_path={out}/race"},
        "quick": {"workers": 8, "checks": 250}, "thorough": {"workers": 14, "checks": 12000},
        "timeout": {"quick": "20m", "thorough": "6h"},
        "rule": "schedsim under the Go race detector: per run one of four scenarios - (0,1) one writer task adding/removing blocks through Chain.AddBlock/RemoveBlock (block cache of 2-6 blocks, 2-5 stable blocks below) with 1-4 reader tasks "
                "calling LastBlock, GetBlockHeaders, GetBlockHeadersByHeights, GetTransactions, GetBlocksBetweenHeight and the getHighestCommonBlock/getBlocksFromId RPC handlers; (2) three tasks on the certificate pool (Add/Select+Upgrade/Cleanup/Get/Has/Size); "
                "(3) event emitter with 1-3 well-behaved subscribers, 1-4 publishers, Unsubscribe and Close, plus two tasks on one staged store through two prefix views. The kernel's hand-offs are invisible to the detector, so a report means the program did not order the accesses. "
                "Oracles: race reports (keyed by the two innermost repository frames), stuck tasks with the lock-wait graph, panics, bulk lookups returning every stable item exactly once, porcupine linearizability of LastBlock against the writer's tip. distinct = distinct (schedule hash, scenario)",
        "real": ["pkg/blockchain (block_cache.go, data_access.go, chain.go)", "pkg/consensus/certificate/pool.go", "pkg/event/event.go", "pkg/db/diffdb/db.go", "pkg/consensus/sync/sync.go (RPC handlers)", "pebble (in-memory)"],
        "stub": ["scheduler, sync primitives, errgroup (kernel tasks)", "p2p connection (nil: handlers only receive well-formed requests)"],
        "distinct_measure": "FNV-64 over the (scheduled task, park kind) decision sequence combined with the scenario",
        "assumptions": ["Go race detector as the happens-before oracle (GORACE suppress_equal_stacks=0 so that a replay in the same process reports again)", "block_sync.go's peer loop is not run here (it needs a p2p connection); its shared append is covered by the chainsim sync runs only functionally",
                        "subscribers are well-behaved (keep receiving until their channel is closed)"],
    },
    "C01": {
        "profile": "chainsim", "pkg": "chain", "batch": 50, "test": "TestC01", "level": "exploration", "env": {"VERIF_PROP": "C01"},
        "quick": {"workers": 8, "checks": 150}, "thorough": {"workers": 14, "checks": 6000},
        "timeout": {"quick": "25m", "thorough": "6h"}, "shrinktime": "90s",
        "rule": "chainsim: per run 2-5 whole nodes and 4-9 validators (drawn BFT weights incl. stand-by generators, batch size, block time 2/5/10 s, thresholds, block cache size, event retention), a drawn schedule of up to 3 validator-set/threshold changes, 10-120 blocks of simulated time; drawn faults: gossip latency 1-3200 ms, loss 0/5/20 %, duplication 0/10 %, up to 3 partitions with heal, up to 3 crash+restart (graceful, kill, power loss) of nodes, clock skew up to 1.5 s, sync RPC timeouts/errors/truncation/bit flips. Oracle: one block id per height across everything any view (node, over its whole life) reports as final (height <= its precommitted height); verdicts only while every honest validator's signed headers are pairwise non-contradicting (checked from the generator DBs) and thresholds are floor(2W/3)+1. distinct = distinct (configuration, end state)",
        "real": ["pkg/consensus (executer, verify, certificate, abi caller)", "pkg/consensus/liskbft, forkchoice, contradiction, validator, sync, certificate", "pkg/blockchain", "pkg/generator", "pkg/txpool", "pkg/framework ABI handler + pkg/statemachine", "pkg/db, diffdb, batchdb, trie/smt, trie/rmt, pkg/codec, pkg/crypto (Ed25519, BLS via blst)", "pebble on the simulated disk"],
        "stub": ["pkg/p2p (stub: simulated gossip flooding with validators, synchronous sync RPC with drawn faults)", "libp2p/gossipsub", "pkg/engine wiring, RPC server, router (the harness wires the same objects; the Start loops of executer/generator/txpool are replaced by simulator events calling their branches)", "application module: simmod", "ABI transport: in-process loopback through the labi codecs", "clock, randomness, request deadlines"],
        "distinct_measure": "FNV-64 of (drawn configuration, final tips / BFT heights / finalized heights of all nodes)",
        "assumptions": ["a node processes one event at a time (its consensus loop is single-threaded in production too); concurrency inside a node is the business of the schedsim checks",
                        "sync RPCs of one processing step see a frozen network (the remote state does not change during the step)", "reference models: DESIGN Appendix A"],
    },
    "C02": {
        "profile": "chainsim", "pkg": "chain", "batch": 50, "test": "TestC02", "level": "exploration", "env": {"VERIF_PROP": "C02"},
        "quick": {"workers": 8, "checks": 150}, "thorough": {"workers": 14, "checks": 6000},
        "timeout": {"quick": "25m", "thorough": "6h"}, "shrinktime": "90s",
        "rule": 'chainsim: per run 2-5 whole nodes and 4-9 validators (drawn BFT weights incl. stand-by generators, batch size, block time 2/5/10 s, thresholds, block cache size, event retention), a drawn schedule of up to 3 validator-set/threshold changes, 10-120 blocks of simulated time; drawn faults: gossip latency 1-3200 ms, loss 0/5/20 %, duplication 0/10 %, up to 3 partitions with heal, up to 3 crash+restart (graceful, kill, power loss) of nodes, clock skew up to 1.5 s, sync RPC timeouts/errors/truncation/bit flips. Oracle: after every block applied on every node (and after restarts) the three BFT heights, per-block prevote/precommit weights, per-validator vote info, parameters for every window height and the stored parameter keys equal an independent persistent LIP-0058 reference evaluated on the fork tree; nodes with equal tips agree; bounded finality in fault-free runs',
        "real": ["pkg/consensus (executer, verify, certificate, abi caller)", "pkg/consensus/liskbft, forkchoice, contradiction, validator, sync, certificate", "pkg/blockchain", "pkg/generator", "pkg/txpool", "pkg/framework ABI handler + pkg/statemachine", "pkg/db, diffdb, batchdb, trie/smt, trie/rmt, pkg/codec, pkg/crypto (Ed25519, BLS via blst)", "pebble on the simulated disk"],
        "stub": ["pkg/p2p (stub: simulated gossip flooding with validators, synchronous sync RPC with drawn faults)", "libp2p/gossipsub", "pkg/engine wiring, RPC server, router (the harness wires the same objects; the Start loops of executer/generator/txpool are replaced by simulator events calling their branches)", "application module: simmod", "ABI transport: in-process loopback through the labi codecs", "clock, randomness, request deadlines"],
        "distinct_measure": "FNV-64 of (drawn configuration, final tips / BFT heights / finalized heights of all nodes)",
        "assumptions": ["a node processes one event at a time (its consensus loop is single-threaded in production too); concurrency inside a node is the business of the schedsim checks",
                        "sync RPCs of one processing step see a frozen network (the remote state does not change during the step)", "reference models: DESIGN Appendix A"],
    },
    "C04": {
        "profile": "chainsim", "pkg": "chain", "batch": 50, "test": "TestC04", "level": "exploration", "env": {"VERIF_PROP": "C04"},
        "quick": {"workers": 8, "checks": 150}, "thorough": {"workers": 14, "checks": 6000},
        "timeout": {"quick": "25m", "thorough": "6h"}, "shrinktime": "90s",
        "rule": 'chainsim: per run 2-5 whole nodes and 4-9 validators (drawn BFT weights incl. stand-by generators, batch size, block time 2/5/10 s, thresholds, block cache size, event retention), a drawn schedule of up to 3 validator-set/threshold changes, 10-120 blocks of simulated time; drawn faults: gossip latency 1-3200 ms, loss 0/5/20 %, duplication 0/10 %, up to 3 partitions with heal, up to 3 crash+restart (graceful, kill, power loss) of nodes, clock skew up to 1.5 s, sync RPC timeouts/errors/truncation/bit flips. Oracle: with every applied block the stored finalized height equals max(previous, precommitted height after the block) in that database state; it never decreases across reorgs, syncs and restarts; block ids at finalized heights never change; one finalize event per raise',
        "real": ["pkg/consensus (executer, verify, certificate, abi caller)", "pkg/consensus/liskbft, forkchoice, contradiction, validator, sync, certificate", "pkg/blockchain", "pkg/generator", "pkg/txpool", "pkg/framework ABI handler + pkg/statemachine", "pkg/db, diffdb, batchdb, trie/smt, trie/rmt, pkg/codec, pkg/crypto (Ed25519, BLS via blst)", "pebble on the simulated disk"],
        "stub": ["pkg/p2p (stub: simulated gossip flooding with validators, synchronous sync RPC with drawn faults)", "libp2p/gossipsub", "pkg/engine wiring, RPC server, router (the harness wires the same objects; the Start loops of executer/generator/txpool are replaced by simulator events calling their branches)", "application module: simmod", "ABI transport: in-process loopback through the labi codecs", "clock, randomness, request deadlines"],
        "distinct_measure": "FNV-64 of (drawn configuration, final tips / BFT heights / finalized heights of all nodes)",
        "assumptions": ["a node processes one event at a time (its consensus loop is single-threaded in production too); concurrency inside a node is the business of the schedsim checks",
                        "sync RPCs of one processing step see a frozen network (the remote state does not change during the step)", "reference models: DESIGN Appendix A"],
    },
    "C05": {
        "profile": "chainsim", "pkg": "chain", "batch": 50, "test": "TestC05", "level": "exploration", "env": {"VERIF_PROP": "C05"},
        "quick": {"workers": 8, "checks": 150}, "thorough": {"workers": 14, "checks": 6000},
        "timeout": {"quick": "25m", "thorough": "6h"}, "shrinktime": "90s",
        "rule": 'chainsim: per run 2-5 whole nodes and 4-9 validators (drawn BFT weights incl. stand-by generators, batch size, block time 2/5/10 s, thresholds, block cache size, event retention), a drawn schedule of up to 3 validator-set/threshold changes, 10-120 blocks of simulated time; drawn faults: gossip latency 1-3200 ms, loss 0/5/20 %, duplication 0/10 %, up to 3 partitions with heal, up to 3 crash+restart (graceful, kill, power loss) of nodes, clock skew up to 1.5 s, sync RPC timeouts/errors/truncation/bit flips. Oracle: right after every block deletion any node performs (tie break, sync, restore) its blockchain DB dump equals the dump taken before that block was applied, except the monotone finalized marker, pruned diffs/events and the requested temp block; cached tip = parent',
        "real": ["pkg/consensus (executer, verify, certificate, abi caller)", "pkg/consensus/liskbft, forkchoice, contradiction, validator, sync, certificate", "pkg/blockchain", "pkg/generator", "pkg/txpool", "pkg/framework ABI handler + pkg/statemachine", "pkg/db, diffdb, batchdb, trie/smt, trie/rmt, pkg/codec, pkg/crypto (Ed25519, BLS via blst)", "pebble on the simulated disk"],
        "stub": ["pkg/p2p (stub: simulated gossip flooding with validators, synchronous sync RPC with drawn faults)", "libp2p/gossipsub", "pkg/engine wiring, RPC server, router (the harness wires the same objects; the Start loops of executer/generator/txpool are replaced by simulator events calling their branches)", "application module: simmod", "ABI transport: in-process loopback through the labi codecs", "clock, randomness, request deadlines"],
        "distinct_measure": "FNV-64 of (drawn configuration, final tips / BFT heights / finalized heights of all nodes)",
        "assumptions": ["a node processes one event at a time (its consensus loop is single-threaded in production too); concurrency inside a node is the business of the schedsim checks",
                        "sync RPCs of one processing step see a frozen network (the remote state does not change during the step)", "reference models: DESIGN Appendix A"],
    },
    "C15": {
        "profile": "chainsim", "pkg": "chain", "batch": 50, "test": "TestC15", "level": "exploration", "env": {"VERIF_PROP": "C15"},
        "quick": {"workers": 8, "checks": 150}, "thorough": {"workers": 14, "checks": 6000},
        "timeout": {"quick": "25m", "thorough": "6h"}, "shrinktime": "90s",
        "rule": "chainsim: per run 2-5 whole nodes and 4-9 validators (drawn BFT weights incl. stand-by generators, batch size, block time 2/5/10 s, thresholds, block cache size, event retention), a drawn schedule of up to 3 validator-set/threshold changes, 10-120 blocks of simulated time; drawn faults: gossip latency 1-3200 ms, loss 0/5/20 %, duplication 0/10 %, up to 3 partitions with heal, up to 3 crash+restart (graceful, kill, power loss) of nodes, clock skew up to 1.5 s, sync RPC timeouts/errors/truncation/bit flips. A client workload sends transactions of the simulation module (2-6 accounts, consecutive nonces, nonce gaps, replacements/stale nonces, sizes 110-600 bytes, one distinct integer fee priority per transaction, and fillers sized so that a node's processable transactions add up to the payload limit exactly; payload limit drawn in 300-15000 bytes) through each node's pool gossip entry. Oracles: every block a node's generator hands on is accepted by that node's own processing in the same step (roots, aggregate commit, payload); its payload against the selection rule evaluated on the node's processable transactions and account nonces read right before generation: each transaction is the next of its sender, no candidate with a higher fee priority that verifies and fits is passed over, a sender whose candidate failed is not used again, payload <= limit, and the block does not end while the best remaining verifying candidate fits; all headers a validator key ever signed (from its generator DB, across chain switches, syncs and restarts) are pairwise non-contradicting by the reference predicate",
        "real": ["pkg/consensus (executer, verify, certificate, abi caller)", "pkg/consensus/liskbft, forkchoice, contradiction, validator, sync, certificate", "pkg/blockchain", "pkg/generator", "pkg/txpool", "pkg/framework ABI handler + pkg/statemachine", "pkg/db, diffdb, batchdb, trie/smt, trie/rmt, pkg/codec, pkg/crypto (Ed25519, BLS via blst)", "pebble on the simulated disk"],
        "stub": ["pkg/p2p (stub: simulated gossip flooding with validators, synchronous sync RPC with drawn faults)", "libp2p/gossipsub", "pkg/engine wiring, RPC server, router (the harness wires the same objects; the Start loops of executer/generator/txpool are replaced by simulator events calling their branches)", "application module: simmod", "ABI transport: in-process loopback through the labi codecs", "clock, randomness, request deadlines"],
        "distinct_measure": "FNV-64 of (drawn configuration, final tips / BFT heights / finalized heights of all nodes)",
        "assumptions": ["a node processes one event at a time (its consensus loop is single-threaded in production too); concurrency inside a node is the business of the schedsim checks",
                        "sync RPCs of one processing step see a frozen network (the remote state does not change during the step)", "reference models: DESIGN Appendix A"],
    },
    "C13": {
        "profile": "chainsim", "pkg": "chain", "batch": 50, "test": "TestC13", "level": "exploration", "env": {"VERIF_PROP": "C13"},
        "quick": {"workers": 8, "checks": 150}, "thorough": {"workers": 14, "checks": 6000},
        "timeout": {"quick": "25m", "thorough": "6h"}, "shrinktime": "90s",
        "rule": "chainsim + simfs: per run a simulated network of 2-4 whole nodes (3-6 validators, drawn weights/thresholds/validator changes, gossip faults, up to 3 partitions with heal) produces the stream of chain operations one of its nodes performs (add block on tip / remove tip block, incl. finality-advancing blocks and synthetic remove+re-add of the tip); a victim node and a twin outside the network apply that stream through processValidated/deleteBlock. For a third of the operations the victim's disk is armed to die at a drawn file-system call (1-5, sometimes 6-20) counted from the start of the operation - torn write (0/1/7/64 bytes or whole), then power loss (un-synced data dropped) or process kill (kept), or an injected I/O error (pebble exits) - the node is restarted (recovery itself crashed again in a fifth of the cases) and retried up to 3 times. Oracles: restart succeeds; the blockchain DB found equals the twin's before-image or after-image key for key; reported tip/BFT heights/finalized height and the application's state entries match that image; after completion DB and tip equal the twin's",
        "real": ["pkg/consensus (executer processValidated/deleteBlock/verify, abi caller)", "pkg/consensus/liskbft", "pkg/blockchain (chain, data access, cache rebuild at start)", "pkg/framework ABI handler (Init roll-back, Commit, Revert) + pkg/statemachine", "pkg/db, diffdb, batchdb, trie/smt", "pebble (WAL, memtable flush, manifest, recovery) on the simulated disk", "the producing network: as in the other chainsim checks"],
        "stub": ["pkg/p2p (stub)", "pkg/engine wiring (harness wires the same objects and calls ABI Init with the engine tip as engine.Start does)", "application module: simmod", "ABI transport: in-process loopback through the labi codecs", "clock", "disk: pebble strict MemFS behind simfs (descriptors of a dead generation are released, its goroutines frozen); pebble background compactions off"],
        "distinct_measure": "FNV-64 of (drawn configuration, final tips / BFT heights / finalized heights of all nodes)",
        "assumptions": ["durability model = pebble's strict MemFS: data is durable once the file was synced and its directory entry synced; a torn write leaves a prefix", "the twin (same code, no faults) defines the before/after images: a defect that corrupts both the same way without a crash is other checks' business (C02, C04, C05)", "map iteration order inside diffdb's cache is canonicalised in the overlay so that two nodes produce byte-identical diffs"],
    },
    "C19": {
        "profile": "chainsim", "pkg": "chain", "batch": 50, "test": "TestC19", "level": "exploration", "env": {"VERIF_PROP": "C19"},
        "quick": {"workers": 8, "checks": 60}, "thorough": {"workers": 14, "checks": 3000},
        "timeout": {"quick": "25m", "thorough": "6h"}, "shrinktime": "90s",
        "rule": "chainsim: per run 3-6 whole nodes and 4-9 validators (in half of the runs some validators, < 1/3 of the weight, belong to a two-headed Byzantine adversary; in a third of the runs 1-4 phantom peers advertise fabricated tips redrawn every 3 s around the honest tips), validator changes, small block caches, 15-90 blocks of faults: gossip latency/loss/duplication, partitions, crash+restart with outages of up to 60 slots (forcing block synchronization), sync RPC timeouts/errors/truncation/bit flips; then faults stop (heal, bans lifted, reliable RPCs, adversary and phantoms gone) for 4 rounds of block slots. Oracles: (1) every un-faulted handler response of an honest node: getLastBlock = its tip, getHighestCommonBlock = highest requested id on its own chain (or empty), getBlocksFromId = the consecutive blocks after the id on its chain, ascending, at most 103; (2) the peer a block sync continues with is allowed by the rule (largest maxHeightPrevoted, then height, then most common id, ties free) evaluated on the answers it actually received; (3) a fast chain switch ends on the triggering block or on the tip it started from, a rolled-back switch bans the serving peer; (4) after the quiet phase all honest nodes agree on the block below the lowest tip and tips differ by at most 2; (5) no node step spins (download loop) or panics",
        "real": ["pkg/consensus/sync (syncer, block sync, fast sync, downloader, requests, peer selection, RPC handlers)", "pkg/consensus (executer process/fork choice/sync trigger, verify)", "pkg/consensus/liskbft, forkchoice, contradiction, validator, certificate", "pkg/blockchain", "pkg/generator", "pkg/txpool", "pkg/framework ABI handler + pkg/statemachine", "pkg/db, diffdb, batchdb, trie/smt, pkg/codec, pkg/crypto", "pebble on the simulated disk"],
        "stub": ["pkg/p2p (stub: simulated gossip flooding with validators, synchronous sync RPC with drawn faults, bans/penalties as link cuts)", "libp2p/gossipsub", "pkg/engine wiring (harness wires the same objects; Start loops replaced by simulator events)", "application module: simmod", "ABI loopback", "clock, randomness (rand.Intn -> 0), request deadlines, download rate limiter"],
        "distinct_measure": "FNV-64 of (drawn configuration, final tips / BFT heights / finalized heights of all nodes)",
        "assumptions": ["sync RPCs of one processing step see a frozen network", "the goroutines of the sync code (per-peer requests, downloader) run in place, in program order: their interleavings are not explored here", "the response cap 103 is the protocol's (one round); the quiet-phase budget of 4 rounds is this check's choice", "map iteration over the id frequencies in peer selection is canonicalised (ties)"],
    },
    "C03": {
        "profile": "chainsim", "pkg": "chain", "batch": 50, "test": "TestC03", "level": "exploration", "env": {"VERIF_PROP": "C03"},
        "quick": {"workers": 8, "checks": 100}, "thorough": {"workers": 14, "checks": 5000},
        "timeout": {"quick": "25m", "thorough": "6h"}, "shrinktime": "90s",
        "rule": "chainsim: per run 2-4 whole nodes, 4-8 validators, validator changes, small caches, 10-70 blocks under gossip latency/loss/duplication, partitions, crash+restart, clock skew and sync RPC faults. Fault under test: a tampering peer. For one in six deliveries of a block signed by an honest validator to a node whose tip is its parent (a valid successor of that node's reachable state) the node is first offered 1-6 drawn single-rule mutants of it through the gossip validator, event handler and consensus loop: version, height+-1, previousBlockID, slot not after the tip's, future slot, generator that does not own the slot (signing with its own key), signature by another key, flipped signature bit, signature for another chain ID, transaction/asset/event/state root, validatorsHash, maxHeightPrevoted+-1, maxHeightGenerated contradicting the generator's last header on that chain (per the reference predicate), aggregate commit (height, forged bits+signature, bits only; for certificate-carrying blocks: signature bit, height, bits, dropped), payload changed under the same root, a statically invalid transaction under a matching root, assets changed under the same root. Every header mutant is re-signed with the right key so that only the rule under test can reject it. Oracles after each mutant: not appended; tip, complete blockchain DB dump and application state DB dump unchanged; no new-block/delete/finalize/validator-change event published (mutants that made the node query its peers give no state verdict); a panic or hang while handling a mutant is reported too",
        "real": ["pkg/consensus (executer process/processValidated/verifyBlock/verifyAggregateCommit, block gossip validator, abi caller)", "pkg/consensus/liskbft, forkchoice, contradiction, validator, sync, certificate", "pkg/blockchain (block/header/transaction validation, signatures, roots)", "pkg/generator (source of the valid successors)", "pkg/framework ABI handler + pkg/statemachine", "pkg/db, diffdb, trie/rmt, trie/smt, pkg/codec, pkg/crypto", "pebble on the simulated disk"],
        "stub": ["pkg/p2p (stub)", "pkg/engine wiring", "application module: simmod", "ABI loopback", "clock, randomness, request deadlines"],
        "distinct_measure": "FNV-64 of (drawn configuration, final tips / BFT heights / finalized heights of all nodes)",
        "assumptions": ["a block signed by an honest validator's key and linking to a node's tip is a valid successor for that node (same chain, same state)", "mutants altering several rules at once are not generated; size-limit and fully executable statically-invalid payloads need the transaction workload (see DESIGN)"],
    },
    "C06": {
        "profile": "chainsim", "pkg": "chain", "batch": 50, "test": "TestC06", "level": "exploration", "env": {"VERIF_PROP": "C06"},
        "quick": {"workers": 8, "checks": 60}, "thorough": {"workers": 14, "checks": 3000},
        "timeout": {"quick": "30m", "thorough": "6h"}, "shrinktime": "90s",
        "rule": "chainsim: per run 2-4 whole nodes and 3-10 validators (drawn weights incl. stand-by generators, drawn certificate/precommit thresholds, up to 3 validator-set changes), chains of 20-110 or 120-260 blocks (the latter leave the first 100 heights, where the commit window arithmetic differs), gossip latency/loss/duplication, partitions, crash+restart. The nodes certify, gossip, pool and aggregate single commits themselves. Added fault: a certificate forger holding every BLS key, acting every 7 s of simulated time. Oracles: (1) after every generator tick, GetAggregateCommit of the node's pool and chain is accepted by the node's own verifyAggregateCommit; (2) forged aggregate commits for the node's chain - drawn height around (certified, precommitted], around the next parameter change and beyond; drawn signer subset; tampering none / signatures over another block / flipped signature bit / a claimed signer that did not sign / bits in descending key order / truncated bits / zero-padded bits - are accepted exactly when the construction says so: un-tampered, signer weight >= certificate threshold of that height, certified < height <= precommitted, height <= (first parameter height > certified+1) - 1; the bit layout is the harness's own (ascending BLS key order, LSB first); zero padding gives no verdict; (3) forged single commits (drawn validator, height, block id, key) offered through the gossip validator: one that is in the pool afterwards must be by a validator with BFT weight at that height and carry its signature over the certificate of the node's own block at that height; (4) no panic in either verifier",
        "real": ["pkg/consensus (certificate.go: verifyAggregateCommit, GetAggregateCommit, singleCommitValidator, Certify, broadcastCertificate; executer)", "pkg/consensus/certificate (single commits, aggregation, pool)", "pkg/crypto (BLS via blst, aggregation bits)", "pkg/consensus/liskbft (heights, parameter lookups)", "pkg/generator (certifies finalized blocks, embeds aggregate commits)", "pkg/blockchain, pkg/db, pkg/codec", "pebble on the simulated disk"],
        "stub": ["pkg/p2p (stub)", "pkg/engine wiring", "application module: simmod", "ABI loopback", "clock, randomness"],
        "distinct_measure": "FNV-64 of (drawn configuration, final tips / BFT heights / finalized heights of all nodes)",
        "assumptions": ["BLS signing/aggregation primitives (blst through pkg/crypto) are trusted; the oracle never verifies a signature itself, it knows what it signed", "heights, thresholds and parameter sets the oracle uses come from the reference BFT model of the node's tip (DESIGN A.1), not from the node", "genesis height is 0 (a non-zero genesis height does not start, see DESIGN observations)"],
    },
    "C07": {
        "profile": "chainsim", "pkg": "chain", "batch": 50, "test": "TestC07", "level": "exploration", "env": {"VERIF_PROP": "C07"},
        "quick": {"workers": 8, "checks": 120}, "thorough": {"workers": 14, "checks": 6000},
        "timeout": {"quick": "25m", "thorough": "6h"}, "shrinktime": "90s",
        "rule": "chainsim: per run 2-5 whole nodes, 4-9 validators of which some (< 1/3 of the weight) belong to a two-headed Byzantine adversary (double forging, false maxHeightGenerated, withheld, partial and late blocks), validator changes, gossip latency up to several slots, loss, duplication, partitions, crash+restart, clock skew up to 1.5 s, sync RPC faults; 15-100 blocks. Oracles: (1) every block a node's consensus loop takes from its queue is classified by the reference fork choice (LIP-0014 case order: identical, extends tip, double forging, tie break, better chain by (maxHeightPrevoted, height), discard) from the tip, the incoming header, the slot in which that tip came in over the network (none for synced blocks) and the receiving slot on the node's own clock; the node's reaction must fit: nothing for identical/double forging/discard; exactly one append and no removal or sync request for a successor; remove-tip + append (or re-append) for a tie break; the sync branch for a better chain; (2) the node's contradiction predicate in both argument orders against the reference predicate on every pair (new header, up to 40 earlier headers of the same generator seen in the run, honest or Byzantine, applied or only signed), and on pairs of different generators; (3) an applied block never contradicts its generator's most recent header in the window of the chain it extends (reference state of the parent)",
        "real": ["pkg/consensus (executer process(): fork choice evaluation order, tie break, sync trigger; verifyBlock)", "pkg/consensus/forkchoice", "pkg/consensus/contradiction", "pkg/consensus/liskbft (IsHeaderContradictingChain, votes window)", "pkg/consensus/sync", "pkg/generator, pkg/blockchain, pkg/txpool, framework ABI handler + statemachine, pkg/db ...", "pebble on the simulated disk"],
        "stub": ["pkg/p2p (stub)", "pkg/engine wiring", "application module: simmod", "ABI loopback", "clock (per-node skew), randomness"],
        "distinct_measure": "FNV-64 of (drawn configuration, final tips / BFT heights / finalized heights of all nodes)",
        "assumptions": ["the exhaustive enumeration of header pairs over small field ranges asked for by the property's quantifier is a pure-function check outside this technique: pairs come from simulated histories only (DESIGN 5)", "the sync branch is observed through the node's own log line, every other reaction through events and requests"],
    },
    "C09": {
        "profile": "chainsim", "pkg": "chain", "batch": 50, "test": "TestC09", "level": "exploration", "env": {"VERIF_PROP": "C09"},
        "quick": {"workers": 8, "checks": 100}, "thorough": {"workers": 14, "checks": 5000},
        "timeout": {"quick": "25m", "thorough": "6h"}, "shrinktime": "90s",
        "rule": "chainsim: per run 2-4 whole nodes and 4-10 validators exchanging real blocks, single commits and sync RPCs for 15-80 blocks under gossip faults, partitions, crash+restart. Untrusted input from three fault sources: (1) a hostile peer every 0.7 s of simulated time: a corrupted copy of a payload the honest nodes exchanged (or a synthetic transaction) - truncated at a drawn offset, a flipped bit, a byte set to 00/7f/80/ff, a five-byte maximal varint inserted, a slice duplicated or dropped, trailing bytes, empty, a few random bytes - pushed through the gossip validator + handler of postBlock / postSingleCommits / postTransactionsAnnouncement or the RPC handler of getLastBlock / getHighestCommonBlock / getBlocksFromId / getTransactions; and crafted messages that pass the cheap checks: a correctly signed successor block whose aggregate commit has 1-3 arbitrary bitmap bytes and a 96-byte (or shorter) non-signature, a single commit by a real validator for a real block whose signature is all-ff / all-zero / the point at infinity / random; (2) sync responses of honest peers truncated or bit-flipped at a drawn position; (3) the single-rule block mutants of C03. Oracle: the simulator's process model - a panic inside any node step (the process would die) or a step that issues more than 3000 requests (the consensus loop never returns) is a violation with the step's input as witness; a run exceeding 300 s wall is reported as infrastructure failure, not as a verdict",
        "real": ["pkg/consensus (block / single-commit gossip validators and handlers, process, verifyBlock, verifyAggregateCommit)", "pkg/consensus/sync (RPC handlers, request decoding, downloader, both sync loops on corrupted responses)", "pkg/txpool (transaction gossip validator/handler, getTransactions handler)", "pkg/blockchain + pkg/codec decoders (block, transaction, events)", "pkg/consensus/certificate, pkg/crypto (BLS verification on garbage, aggregation bits)", "framework ABI handler + statemachine (VerifyTransaction on decoded garbage)"],
        "stub": ["pkg/p2p envelope decoding, message validator and rate limiting (stubbed here; the real ones face malformed envelopes in the C18 check)", "libp2p", "pkg/rpc HTTP/WS server (not executed: RPC clients are not simulated)", "application module: simmod", "clock"],
        "distinct_measure": "FNV-64 of (drawn configuration, final tips / BFT heights / finalized heights of all nodes)",
        "assumptions": ["inputs are corruptions of what simulated runs produce plus a few crafted shapes; exhaustive enumeration of all short byte strings is outside the technique (DESIGN 5)", "SMT/RMT proof verifiers are exercised by the C10/C11 harnesses, whose panic verdicts are labelled C09 there", "time and memory bounds are only checked through the request-loop guard and the wall-clock watchdog"],
    },
}
