#!/bin/sh
# determinism self-test for a kernel harness: same seed, different GOMAXPROCS, event traces must be identical
BIN=$1; TEST=$2; N=${3:-30}
cd $(mktemp -d)
for seed in $(seq 1 $N); do
  for g in 1 2 8; do
    VERIF_TRACE=1 VERIF_DETLOG=det-$seed-$g.log GOMAXPROCS=$g $BIN -test.run "^$TEST\$" -rapid.checks=15 -rapid.seed=$seed -rapid.nofailfile > out-$seed-$g.txt 2>&1
  done
  cmp -s det-$seed-1.log det-$seed-2.log && cmp -s det-$seed-1.log det-$seed-8.log || { echo "DIVERGENCE seed $seed"; exit 1; }
done
echo "determinism ok: $N seeds x GOMAXPROCS 1/2/8, $(cat det-*-1.log | wc -l) trace lines each compared"
