package simkit

import "runtime"

func runtimeStack(buf []byte) int { return runtime.Stack(buf, true) }
