// Package simkit is the part of the harness shared by every check: counters that become the evidence file,
// violation reporting with known-finding filtering, and small helpers around rapid as the single choice source.
package simkit

import (
	"encoding/json"
	"fmt"
	"hash/fnv"
	"os"
	"path/filepath"
	"runtime"
	"sort"
	"strings"
	"sync"
	"time"

	"pgregory.net/rapid"
)

// Stats is what one worker process measured. It is written to $VERIF_OUT/stats-<worker>.json by Flush.
type Stats struct {
	Property   string            `json:"property"`
	Worker     string            `json:"worker"`
	Seed       uint64            `json:"seed"`
	Runs       int64             `json:"runs"`
	Steps      int64             `json:"steps"`
	SimSeconds float64           `json:"sim_seconds"`
	Faults     map[string]int64  `json:"faults"`
	Probes     map[string]int64  `json:"probes"`
	Counters   map[string]int64  `json:"counters"`
	Distinct   []string          `json:"distinct"`
	Samples    []json.RawMessage `json:"samples"`
	Violations []Violation       `json:"violations"`
	Known      map[string]int64  `json:"known"`
	WallS      float64           `json:"wall_s"`
}

type Violation struct {
	Property string `json:"property"`
	Oracle   string `json:"oracle"`
	Witness  string `json:"witness"`
	Message  string `json:"message"`
}

var (
	mu             sync.Mutex
	st             = newStats()
	distinct       = map[uint64]struct{}{}
	known          []knownFinding
	start          = time.Now()
	maxDistinctOut = 400000
)

type knownFinding struct {
	property string
	oracle   string
	witness  string // prefix match on witness; "*" matches all
	text     string
}

func newStats() *Stats {
	return &Stats{Faults: map[string]int64{}, Probes: map[string]int64{}, Counters: map[string]int64{}, Known: map[string]int64{}}
}

// Init is called from TestMain.
func Init(property string) {
	st.Property = property
	st.Worker = os.Getenv("VERIF_WORKER")
	loadKnown(os.Getenv("VERIF_KNOWN"))
}

func loadKnown(path string) {
	if path == "" {
		return
	}
	data, err := os.ReadFile(path)
	if err != nil {
		return
	}
	for _, line := range strings.Split(string(data), "\n") {
		line = strings.TrimSpace(line)
		if !strings.HasPrefix(line, "known:") {
			continue
		}
		// known: property=C14 oracle=deadlock witness=add-full <free text>
		kf := knownFinding{text: line}
		for _, f := range strings.Fields(line[len("known:"):]) {
			switch {
			case strings.HasPrefix(f, "property="):
				kf.property = f[len("property="):]
			case strings.HasPrefix(f, "oracle="):
				kf.oracle = f[len("oracle="):]
			case strings.HasPrefix(f, "witness="):
				kf.witness = f[len("witness="):]
			}
		}
		if kf.property != "" && kf.oracle != "" {
			known = append(known, kf)
		}
	}
}

// IsKnown reports whether (property, oracle, witness) is listed in the known-findings file.
func IsKnown(property, oracle, witness string) bool {
	for _, k := range known {
		if k.property == property && k.oracle == oracle && (k.witness == "*" || k.witness == "" || strings.HasPrefix(witness, k.witness)) {
			return true
		}
	}
	return false
}

// KnownAbort is panicked (and recovered by RunProperty) to end a run that hit a listed finding.
type KnownAbort struct{ Key string }

// Fail reports a violation of property found by oracle on the given witness class. If it is a listed known
// finding the run is ended quietly and counted; otherwise the rapid property fails (which triggers shrinking).
func Fail(t *rapid.T, property, oracle, witness, format string, args ...interface{}) {
	msg := fmt.Sprintf(format, args...)
	key := property + " " + oracle + " " + witness
	if IsKnown(property, oracle, witness) {
		mu.Lock()
		st.Known[key]++
		mu.Unlock()
		panic(KnownAbort{Key: key})
	}
	mu.Lock()
	if len(st.Violations) < 20 {
		st.Violations = append(st.Violations, Violation{Property: property, Oracle: oracle, Witness: witness, Message: msg})
	}
	mu.Unlock()
	t.Fatalf("VIOLATION property=%s oracle=%s witness=%s :: %s", property, oracle, witness, msg)
}

// Guard runs body and converts a KnownAbort panic into a normal return. Everything else propagates.
func Guard(body func()) (knownKey string) {
	defer func() {
		if r := recover(); r != nil {
			if ka, ok := r.(KnownAbort); ok {
				knownKey = ka.Key
				return
			}
			panic(r)
		}
	}()
	body()
	return ""
}

func AddRun() {
	mu.Lock()
	st.Runs++
	r := st.Runs
	mu.Unlock()
	if os.Getenv("VERIF_MEMDEBUG") != "" && r%20 == 0 {
		var m runtime.MemStats
		runtime.ReadMemStats(&m)
		rss := ""
		if b, err := os.ReadFile("/proc/self/status"); err == nil {
			for _, ln := range strings.Split(string(b), "\n") {
				if strings.HasPrefix(ln, "VmRSS") {
					rss = ln
				}
			}
		}
		fmt.Fprintf(os.Stderr, "MEMDEBUG run %d goroutines %d heapInuse %dMB heapSys %dMB released %dMB stackInuse %dMB sys %dMB %s\n", r, runtime.NumGoroutine(), m.HeapInuse>>20, m.HeapSys>>20, m.HeapReleased>>20, m.StackInuse>>20, m.Sys>>20, rss)
	}
}
func AddSteps(n int64)          { mu.Lock(); st.Steps += n; mu.Unlock() }
func AddSimSeconds(s float64)   { mu.Lock(); st.SimSeconds += s; mu.Unlock() }
func Fault(kind string)         { mu.Lock(); st.Faults[kind]++; mu.Unlock() }
func FaultN(kind string, n int) { mu.Lock(); st.Faults[kind] += int64(n); mu.Unlock() }
func Probe(name string)         { mu.Lock(); st.Probes[name]++; mu.Unlock() }
func Count(name string, n int64) {
	mu.Lock()
	st.Counters[name] += n
	mu.Unlock()
}

// Distinct records a fingerprint of a non-trivial explored case (schedule, history or abstract state).
func Distinct(parts ...interface{}) {
	h := fnv.New64a()
	fmt.Fprint(h, parts...)
	v := h.Sum64()
	mu.Lock()
	distinct[v] = struct{}{}
	mu.Unlock()
}

func DistinctBytes(b []byte) {
	h := fnv.New64a()
	h.Write(b)
	v := h.Sum64()
	mu.Lock()
	distinct[v] = struct{}{}
	mu.Unlock()
}

// Sample keeps up to 3 written-out cases per worker.
func Sample(v interface{}) {
	mu.Lock()
	defer mu.Unlock()
	if len(st.Samples) >= 3 {
		return
	}
	b, err := json.Marshal(v)
	if err == nil {
		st.Samples = append(st.Samples, b)
	}
}

func SamplesFull() bool { mu.Lock(); defer mu.Unlock(); return len(st.Samples) >= 3 }

// Flush writes the stats file. Called from TestMain after m.Run().
func Flush() {
	dir := os.Getenv("VERIF_OUT")
	if dir == "" {
		return
	}
	mu.Lock()
	defer mu.Unlock()
	st.WallS = time.Since(start).Seconds()
	st.Distinct = st.Distinct[:0]
	n := 0
	for v := range distinct {
		if n >= maxDistinctOut {
			break
		}
		st.Distinct = append(st.Distinct, fmt.Sprintf("%x", v))
		n++
	}
	sort.Strings(st.Distinct)
	b, _ := json.Marshal(st)
	name := filepath.Join(dir, fmt.Sprintf("stats-%s-%s.json", st.Property, st.Worker))
	_ = os.WriteFile(name, b, 0o644)
}

// ---- choice helpers: everything random comes from rapid -------------------------------------------------

func Int(t *rapid.T, label string, lo, hi int) int {
	if hi <= lo {
		return lo
	}
	return rapid.IntRange(lo, hi).Draw(t, label)
}

func Bool(t *rapid.T, label string) bool { return rapid.IntRange(0, 1).Draw(t, label) == 1 }

// Chance is true with probability ~ num/den; shrinks towards false.
func Chance(t *rapid.T, label string, num, den int) bool {
	return rapid.IntRange(0, den-1).Draw(t, label) >= den-num
}

func Bytes(t *rapid.T, label string, lo, hi int) []byte {
	n := Int(t, label+".len", lo, hi)
	b := make([]byte, n)
	for i := range b {
		b[i] = byte(rapid.IntRange(0, 255).Draw(t, label))
	}
	return b
}

// Tier returns "quick" or "thorough".
func Tier() string {
	if os.Getenv("VERIF_TIER") == "thorough" {
		return "thorough"
	}
	return "quick"
}

// Watch starts a wall-clock watchdog for one run; if it expires the process exits with status 3 and a goroutine
// dump (infrastructure trouble, never a verdict). Call the returned function when the run ends.
func Watch(limit time.Duration, what string) func() {
	tm := time.AfterFunc(limit, func() {
		buf := make([]byte, 1<<20)
		n := runtimeStack(buf)
		fmt.Fprintf(os.Stderr, "WATCHDOG: %s exceeded %v of wall time\n%s\n", what, limit, buf[:n])
		os.Exit(3)
	})
	return func() { tm.Stop() }
}

var detFile *os.File

// DetFine reports whether the fine-grained determinism trace (one line per simulator event) is wanted.
var detFine = os.Getenv("VERIF_DETFINE") != ""

func DetFine() bool { return detFine }

// DetLog appends one line per run to $VERIF_DETLOG (determinism self-test: the files of two processes running the
// same seed must be byte-identical). Never draws, never reads a clock.
func DetLog(format string, args ...interface{}) {
	path := os.Getenv("VERIF_DETLOG")
	if path == "" {
		return
	}
	mu.Lock()
	defer mu.Unlock()
	if detFile == nil {
		f, err := os.OpenFile(path, os.O_CREATE|os.O_WRONLY|os.O_TRUNC, 0o644)
		if err != nil {
			return
		}
		detFile = f
	}
	fmt.Fprintf(detFile, format+"\n", args...)
}
