// Package simfs is the simulated disk: pebble's strict in-memory FS (which distinguishes written from synced
// data and un-synced directory entries) behind a wrapper that numbers every mutating call and can crash the
// "process" at call k, tear the write it crashes in, or fail a call with an I/O error.
package simfs

import (
	"errors"
	"io"
	"os"
	"strings"
	"sync"
	"sync/atomic"

	"github.com/cockroachdb/pebble/vfs"
)

// Crash is the panic value raised at the chosen crash point.
type Crash struct {
	Op   int
	Kind string
	Name string
}

var ErrDead = errors.New("simfs: process generation is dead")
var ErrInjected = errors.New("simfs: injected I/O error")

// Disk is the durable medium. It survives crashes; FS values are per-process-generation views of it.
type Disk struct {
	mem    *vfs.MemFS
	mu     sync.Mutex
	gen    int64
	Ops    atomic.Int64 // mutating calls since creation
	OpLog  []string
	LogOps bool
	cur    *FS
}

func NewDisk() *Disk {
	return &Disk{mem: vfs.NewStrictMem()}
}

// FS is what one process generation sees.
type FS struct {
	d       *Disk
	gen     int64
	crashAt int64 // op index (1-based, counted within this generation) at which to crash; 0 = never
	failAt  int64 // op index at which to return ErrInjected
	tear    int   // for a crash inside Write: number of bytes of the buffer that still reach the file (-1: all, 0: none)
	smu     sync.Mutex
	ops     atomic.Int64
	dead    atomic.Bool
	Fired   atomic.Bool
	crashed chan struct{} // closed when the crash point is reached
	hmu     sync.Mutex
	handles map[*file_]struct{} // open files of this generation; the OS closes them when the process dies
	once    sync.Once
	Why     atomic.Value // string: what killed this generation
	// Countable, if set, selects the mutating calls that are numbered (and can be the crash or error point). A harness
	// whose crash points must land at the same place in every replay restricts them to calls the code under test waits
	// for (write-ahead log writes and syncs); pebble's background flushes run on their own goroutines at their own pace.
	Countable func(kind, name string) bool
}

// Crashed is closed when this generation died at its crash point (or by Die).
func (f *FS) Crashed() <-chan struct{} { return f.crashed }

// Die kills this generation from the outside (e.g. pebble decided the process must exit) and never returns.
func (f *FS) Die(why string) {
	f.die(why)
	select {}
}

func (f *FS) die(why string) {
	f.dead.Store(true)
	f.once.Do(func() {
		f.Why.Store(why)
		f.Fired.Store(true)
		close(f.crashed)
	})
}

// halt blocks the calling goroutine forever: the process is dead, none of its threads makes progress.
func halt() { select {} }

// Open starts a new process generation on the disk. All handles of earlier generations are fenced off.
func (d *Disk) Open() *FS {
	d.mu.Lock()
	defer d.mu.Unlock()
	d.gen++
	d.releaseLocked()
	d.cur = &FS{d: d, gen: d.gen, crashed: make(chan struct{}), handles: map[*file_]struct{}{}}
	return d.cur
}

// releaseLocked closes the descriptors the previous generation still held, as the operating system does when a process
// dies (nothing is synced by that). Without it the in-memory FS keeps treating those files as open and refuses to
// remove them, which no real file system does for a dead process.
func (d *Disk) releaseLocked() {
	f := d.cur
	if f == nil {
		return
	}
	d.cur = nil
	f.dead.Store(true)
	f.hmu.Lock()
	hs := f.handles
	f.handles = map[*file_]struct{}{}
	f.hmu.Unlock()
	for h := range hs {
		h.mu.Lock()
		if h.closed.CompareAndSwap(false, true) {
			_ = h.File.Close()
		}
		h.mu.Unlock()
	}
}

// PowerLoss discards everything that was not synced (file contents and directory entries).
func (d *Disk) PowerLoss() {
	d.mu.Lock()
	d.gen++
	d.releaseLocked()
	d.mu.Unlock()
	d.mem.ResetToSyncedState()
}

// Kill ends the current generation keeping everything written so far (process crash, OS survives).
func (d *Disk) Kill() {
	d.mu.Lock()
	d.gen++
	d.releaseLocked()
	d.mu.Unlock()
}

// WALSync selects the syncs of write-ahead log files: the calls a committing goroutine waits for. Their number and
// order is a function of the sequence of commits alone, whereas the number of write calls per record and everything
// pebble's flush goroutines do depends on how the goroutines happen to be scheduled.
func WALSync(kind, name string) bool { return kind == "sync" && strings.HasSuffix(name, ".log") }

// SetCountable sets Countable while goroutines of this generation may be running.
func (f *FS) SetCountable(c func(kind, name string) bool) {
	f.smu.Lock()
	f.Countable = c
	f.smu.Unlock()
}

// CrashIn arms a crash at the k-th mutating call from now (k >= 1). tear: see FS.tear.
func (f *FS) CrashIn(k int, tear int) {
	f.smu.Lock()
	f.crashAt = f.ops.Load() + int64(k)
	f.tear = tear
	f.smu.Unlock()
}

// FailIn arms an injected I/O error at the k-th mutating call from now.
func (f *FS) FailIn(k int) {
	f.smu.Lock()
	f.failAt = f.ops.Load() + int64(k)
	f.smu.Unlock()
}

// Disarm removes pending crash/error points; it reports whether the generation has already died.
func (f *FS) Disarm() bool {
	f.smu.Lock()
	f.crashAt = 0
	f.failAt = 0
	f.smu.Unlock()
	return f.dead.Load()
}

func (f *FS) OpCount() int { return int(f.ops.Load()) }

func (f *FS) alive() bool {
	if f.dead.Load() {
		return false
	}
	f.d.mu.Lock()
	ok := f.d.gen == f.gen
	f.d.mu.Unlock()
	return ok
}

// step numbers a mutating call. At the crash point the generation dies: the caller (and every later caller)
// blocks forever, exactly like the threads of a killed process. An injected I/O error is returned to the caller.
func (f *FS) step(kind, name string) error {
	if !f.alive() {
		halt()
	}
	f.smu.Lock()
	if f.Countable != nil && !f.Countable(kind, name) {
		f.smu.Unlock()
		return nil // not a call crash points are counted in (see Countable)
	}
	n := f.ops.Add(1)
	crashAt, failAt := f.crashAt, f.failAt
	f.smu.Unlock()
	f.d.Ops.Add(1)
	if f.d.LogOps {
		f.d.mu.Lock()
		f.d.OpLog = append(f.d.OpLog, kind+" "+name)
		f.d.mu.Unlock()
	}
	if crashAt != 0 && n == crashAt {
		f.die(kind + " " + name)
		halt()
	}
	if failAt != 0 && n == failAt {
		f.Fired.Store(true)
		return ErrInjected
	}
	return nil
}

func (f *FS) Create(name string) (vfs.File, error) {
	if err := f.step("create", name); err != nil {
		return nil, err
	}
	file, err := f.d.mem.Create(name)
	if err != nil {
		return nil, err
	}
	return f.track(&file_{fs: f, File: file, name: name}), nil
}

func (f *FS) Link(oldname, newname string) error {
	if err := f.step("link", newname); err != nil {
		return err
	}
	return f.d.mem.Link(oldname, newname)
}

func (f *FS) Open(name string, opts ...vfs.OpenOption) (vfs.File, error) {
	if !f.alive() {
		halt()
	}
	file, err := f.d.mem.Open(name, opts...)
	if err != nil {
		return nil, err
	}
	return f.track(&file_{fs: f, File: file, name: name}), nil
}

func (f *FS) OpenDir(name string) (vfs.File, error) {
	if !f.alive() {
		halt()
	}
	file, err := f.d.mem.OpenDir(name)
	if err != nil {
		return nil, err
	}
	return f.track(&file_{fs: f, File: file, name: name, dir: true}), nil
}

func (f *FS) Remove(name string) error {
	if err := f.step("remove", name); err != nil {
		return err
	}
	return f.d.mem.Remove(name)
}

func (f *FS) RemoveAll(name string) error {
	if err := f.step("removeall", name); err != nil {
		return err
	}
	return f.d.mem.RemoveAll(name)
}

func (f *FS) Rename(oldname, newname string) error {
	if err := f.step("rename", newname); err != nil {
		return err
	}
	return f.d.mem.Rename(oldname, newname)
}

func (f *FS) ReuseForWrite(oldname, newname string) (vfs.File, error) {
	if err := f.step("reuse", newname); err != nil {
		return nil, err
	}
	file, err := f.d.mem.ReuseForWrite(oldname, newname)
	if err != nil {
		return nil, err
	}
	return f.track(&file_{fs: f, File: file, name: newname}), nil
}

func (f *FS) MkdirAll(dir string, perm os.FileMode) error {
	if err := f.step("mkdir", dir); err != nil {
		return err
	}
	return f.d.mem.MkdirAll(dir, perm)
}

type nopCloser struct{}

func (nopCloser) Close() error { return nil }

func (f *FS) Lock(name string) (io.Closer, error) {
	if !f.alive() {
		halt()
	}
	// MemFS.Lock creates the lock file; exclusivity across generations is meaningless after a crash.
	if _, err := f.d.mem.Stat(name); err != nil {
		file, err := f.d.mem.Create(name)
		if err != nil {
			return nil, err
		}
		file.Close()
	}
	return nopCloser{}, nil
}

func (f *FS) List(dir string) ([]string, error)     { return f.d.mem.List(dir) }
func (f *FS) Stat(name string) (os.FileInfo, error) { return f.d.mem.Stat(name) }
func (f *FS) PathBase(path string) string           { return f.d.mem.PathBase(path) }
func (f *FS) PathJoin(elem ...string) string        { return f.d.mem.PathJoin(elem...) }
func (f *FS) PathDir(path string) string            { return f.d.mem.PathDir(path) }
func (f *FS) GetDiskUsage(p string) (vfs.DiskUsage, error) {
	return vfs.DiskUsage{AvailBytes: 1 << 40, TotalBytes: 1 << 41, UsedBytes: 1 << 40}, nil
}

type file_ struct {
	vfs.File
	fs     *FS
	name   string
	dir    bool
	closed atomic.Bool
	mu     sync.RWMutex // held (read) around every call into the in-memory file; the release at process death takes it
}

// use runs a call into the in-memory file unless the descriptor was released (then the caller is a thread of a dead
// process and freezes).
func (f *file_) use(fn func()) {
	f.mu.RLock()
	if f.closed.Load() {
		f.mu.RUnlock()
		halt()
	}
	fn()
	f.mu.RUnlock()
}

func (f *file_) Stat() (fi os.FileInfo, err error) {
	if !f.fs.alive() {
		halt()
	}
	f.use(func() { fi, err = f.File.Stat() })
	return
}

func (f *FS) track(h *file_) *file_ {
	f.hmu.Lock()
	f.handles[h] = struct{}{}
	f.hmu.Unlock()
	return h
}

func (f *file_) Close() error {
	if !f.fs.alive() {
		halt()
	}
	f.fs.hmu.Lock()
	delete(f.fs.handles, f)
	f.fs.hmu.Unlock()
	f.mu.Lock()
	defer f.mu.Unlock()
	if !f.closed.CompareAndSwap(false, true) {
		return nil
	}
	return f.File.Close()
}

func (f *file_) Write(p []byte) (int, error) {
	if !f.fs.alive() {
		halt()
	}
	// a crash inside Write may leave a prefix of p behind (torn write)
	f.fs.smu.Lock()
	tearNow := f.fs.crashAt != 0 && f.fs.ops.Load()+1 == f.fs.crashAt && f.fs.tear != 0 && len(p) > 0 &&
		(f.fs.Countable == nil || f.fs.Countable("write", f.name))
	tear := f.fs.tear
	f.fs.smu.Unlock()
	if tearNow {
		n := tear
		if n < 0 || n > len(p) {
			n = len(p)
		}
		cp := make([]byte, n)
		copy(cp, p[:n])
		f.use(func() { _, _ = f.File.Write(cp) })
	}
	if err := f.fs.step("write", f.name); err != nil {
		return 0, err
	}
	var n int
	var err error
	f.use(func() { n, err = f.File.Write(p) })
	return n, err
}

func (f *file_) Sync() error {
	kind := "sync"
	if f.dir {
		kind = "syncdir"
	}
	if err := f.fs.step(kind, f.name); err != nil {
		return err
	}
	var err error
	f.use(func() { err = f.File.Sync() })
	return err
}

func (f *file_) Read(p []byte) (int, error) {
	if !f.fs.alive() {
		halt()
	}
	var n int
	var err error
	f.use(func() { n, err = f.File.Read(p) })
	return n, err
}

func (f *file_) ReadAt(p []byte, off int64) (int, error) {
	if !f.fs.alive() {
		halt()
	}
	var n int
	var err error
	f.use(func() { n, err = f.File.ReadAt(p, off) })
	return n, err
}

// RunCrashable runs op on its own goroutine, as the "process". It returns when op returns, when op panics
// (panicVal != nil; in production that kills the process too), or when the generation dies at its crash point
// (crashed = true; the goroutine and everything it started stay blocked forever, like threads of a dead process).
func RunCrashable(f *FS, op func()) (crashed bool, panicVal interface{}) {
	done := make(chan interface{}, 1)
	go func() {
		defer func() {
			done <- recover()
		}()
		op()
	}()
	select {
	case pv := <-done:
		return false, pv
	case <-f.crashed:
		return true, nil
	}
}

// MkdirDurable creates dir and makes every directory entry on the way durable (pebble syncs the data
// directory itself but not its parents; a real deployment creates them long before).
func (d *Disk) MkdirDurable(dir string) error {
	if err := d.mem.MkdirAll(dir, 0o755); err != nil {
		return err
	}
	p := dir
	for {
		parent := d.mem.PathDir(p)
		f, err := d.mem.OpenDir(parent)
		if err != nil {
			return err
		}
		if err := f.Sync(); err != nil {
			return err
		}
		f.Close()
		if parent == p || parent == "/" || parent == "." || parent == "" {
			break
		}
		p = parent
	}
	f, err := d.mem.OpenDir("")
	if err == nil {
		_ = f.Sync()
		f.Close()
	}
	return nil
}
