// Package simmod is the application used in the simulations: one framework.Module whose command executes a small
// program carried in the transaction parameters (writes, deletes and events across module stores, then success
// or failure), with an account-nonce rule, per-block state changes and a scheduled validator-set change.
// It is deliberately tiny: everything around it (ABI handler, state machine, diff store, SMT) is the real code.
package simmod

import (
	"encoding/binary"
	"errors"
	"fmt"
	"sort"

	"github.com/LiskHQ/lisk-engine/pkg/codec"
	"github.com/LiskHQ/lisk-engine/pkg/labi"
	"github.com/LiskHQ/lisk-engine/pkg/statemachine"
)

const Name = "sim"
const CommandName = "prog"

// instruction opcodes
const (
	OpEnd    byte = 0 // succeed
	OpSet    byte = 1
	OpDel    byte = 2
	OpEvent  byte = 3 // revertible event
	OpEventU byte = 4 // unrevertible event
	OpFail   byte = 5 // end with an error
	OpGet    byte = 6 // read a key (the value is discarded): leaves a clean entry in the staged store's cache
	OpHas    byte = 7
	// OpInvalidAfter does nothing in the command; the module's AfterCommandExecute hook refuses a transaction whose program
	// contains it, so the transaction verifies but its execution is INVALID (not merely failed): a generator must leave it
	// out and skip its sender, and none of its effects (nonce increment, command writes, events) may stay behind.
	OpInvalidAfter byte = 8
)

// ExecutesInvalid tells whether a transaction with these parameters passes verification and is then refused by the
// AfterCommandExecute hook.
func ExecutesInvalid(params []byte) bool {
	prog, err := DecodeProgram(params)
	if err != nil {
		return false
	}
	for _, in := range prog {
		if in.Op == OpInvalidAfter {
			return true
		}
	}
	return false
}

type Instr struct {
	Op    byte
	Store byte // 1 or 2
	Sub   byte // 0 or 1
	Key   []byte
	Val   []byte
}

func EncodeProgram(p []Instr) []byte {
	var out []byte
	for _, in := range p {
		out = append(out, in.Op, in.Store, in.Sub, byte(len(in.Key)))
		out = append(out, in.Key...)
		out = append(out, byte(len(in.Val)))
		out = append(out, in.Val...)
	}
	return out
}

func DecodeProgram(b []byte) ([]Instr, error) {
	var out []Instr
	for len(b) > 0 {
		if len(b) < 4 {
			return nil, errors.New("short instruction")
		}
		in := Instr{Op: b[0], Store: b[1], Sub: b[2]}
		kl := int(b[3])
		b = b[4:]
		if len(b) < kl+1 {
			return nil, errors.New("short key")
		}
		in.Key = append([]byte(nil), b[:kl]...)
		vl := int(b[kl])
		b = b[kl+1:]
		if len(b) < vl {
			return nil, errors.New("short value")
		}
		in.Val = append([]byte(nil), b[:vl]...)
		b = b[vl:]
		out = append(out, in)
	}
	return out, nil
}

func StorePrefix(store byte) []byte { return []byte{0, 0, 0, store} }
func SubPrefix(sub byte) []byte     { return []byte{0, sub} }

var (
	accountStore = byte(9)
	blockStore   = byte(8)
)

// AccountKey is the full module-store key prefix + address, as it appears below the state DB prefix.
func FullKey(store, sub byte, key []byte) []byte {
	return append(append(StorePrefix(store), SubPrefix(sub)...), key...)
}

func AccountFullKey(addr []byte) []byte { return FullKey(accountStore, 0, addr) }
func BlockFullKey() []byte              { return FullKey(blockStore, 0, []byte("lastHeight")) }

// ValidatorChange is a scheduled change of the validator set / thresholds, applied by the block at Height.
type ValidatorChange struct {
	Height               uint32
	PrecommitThreshold   uint64
	CertificateThreshold uint64
	Validators           []*labi.Validator
}

// Config is shared by all nodes of a run (it is part of the chain definition, like a genesis asset).
type Config struct {
	GenesisValidators    []*labi.Validator
	PrecommitThreshold   uint64
	CertificateThreshold uint64
	Changes              []ValidatorChange // sorted by height
	GenesisState         map[string][]byte // full module keys
	BlockEvents          bool              // emit one event per block in BeforeTransactionsExecute
	Asset                bool              // insert a block asset
	StrictNonce          bool              // VerifyTransaction enforces the account nonce
	QuietBlocks          bool              // the block hook writes nothing: a block without transactions leaves the state as it is
}

type Module struct {
	cfg *Config
}

func New(cfg *Config) *Module {
	sort.Slice(cfg.Changes, func(i, j int) bool { return cfg.Changes[i].Height < cfg.Changes[j].Height })
	return &Module{cfg: cfg}
}

type endpoint struct{}

func (endpoint) Get() statemachine.EndpointHandlers { return statemachine.EndpointHandlers{} }

func (m *Module) Endpoint() statemachine.Endpoint { return endpoint{} }
func (m *Module) Init(cfg []byte) error           { return nil }
func (m *Module) Name() string                    { return Name }

func (m *Module) InitGenesisState(ctx *statemachine.GenesisBlockProcessingContext) error {
	keys := make([]string, 0, len(m.cfg.GenesisState))
	for k := range m.cfg.GenesisState {
		keys = append(keys, k)
	}
	sort.Strings(keys)
	for _, k := range keys {
		kb := []byte(k)
		ctx.GetStore(kb[:4], kb[4:6]).Set(kb[6:], m.cfg.GenesisState[k])
	}
	ctx.SetNextValidators(m.cfg.PrecommitThreshold, m.cfg.CertificateThreshold, m.cfg.GenesisValidators)
	return nil
}

func (m *Module) FinalizeGenesisState(ctx *statemachine.GenesisBlockProcessingContext) error {
	return nil
}

func (m *Module) InsertAssets(ctx *statemachine.InsertAssetsContext) error {
	if m.cfg.Asset {
		h := make([]byte, 4)
		binary.BigEndian.PutUint32(h, ctx.BlockHeader().Height())
		ctx.SetAsset(Name, h)
	}
	return nil
}

func (m *Module) VerifyAssets(ctx *statemachine.VerifyAssetsContext) error {
	if !m.cfg.Asset {
		return nil
	}
	data, ok := ctx.BlockAssets().GetAsset(Name)
	if !ok {
		return errors.New("sim asset missing")
	}
	if len(data) != 4 || binary.BigEndian.Uint32(data) != ctx.BlockHeader().Height() {
		return errors.New("sim asset does not carry the block height")
	}
	return nil
}

func nonceOf(store statemachine.ImmutableStore, addr []byte) uint64 {
	v, ok := store.Get(addr)
	if !ok || len(v) != 8 {
		return 0
	}
	return binary.BigEndian.Uint64(v)
}

func (m *Module) VerifyTransaction(ctx *statemachine.TransactionVerifyContext) statemachine.VerifyResult {
	tx := ctx.Transaction()
	if tx.Module() != Name {
		return statemachine.NewVerifyResultError(fmt.Errorf("unknown module %s", tx.Module()))
	}
	if !m.cfg.StrictNonce {
		return statemachine.NewVerifyResultOK()
	}
	acct := ctx.GetStore(StorePrefix(accountStore), SubPrefix(0))
	n := nonceOf(acct, tx.SenderAddress())
	switch {
	case tx.Nonce() < n:
		return statemachine.NewVerifyResultError(fmt.Errorf("nonce %d lower than account nonce %d", tx.Nonce(), n))
	case tx.Nonce() > n:
		return statemachine.NewVerifyResultPending(fmt.Errorf("nonce %d higher than account nonce %d", tx.Nonce(), n))
	}
	return statemachine.NewVerifyResultOK()
}

func (m *Module) BeforeTransactionsExecute(ctx *statemachine.BeforeTransactionsExecuteContext) error {
	h := make([]byte, 4)
	binary.BigEndian.PutUint32(h, ctx.BlockHeader().Height())
	if !m.cfg.QuietBlocks {
		ctx.GetStore(StorePrefix(blockStore), SubPrefix(0)).Set([]byte("lastHeight"), h)
	}
	if m.cfg.BlockEvents {
		return ctx.EventQueue().Add(Name, "blk", h, []codec.Hex{h})
	}
	return nil
}

func (m *Module) AfterTransactionsExecute(ctx *statemachine.AfterTransactionsExecuteContext) error {
	height := ctx.BlockHeader().Height()
	for _, ch := range m.cfg.Changes {
		if ch.Height == height {
			ctx.SetNextValidators(ch.PrecommitThreshold, ch.CertificateThreshold, ch.Validators)
		}
	}
	return nil
}

func (m *Module) BeforeCommandExecute(ctx *statemachine.TransactionExecuteContext) error {
	tx := ctx.Transaction()
	acct := ctx.GetStore(StorePrefix(accountStore), SubPrefix(0))
	n := nonceOf(acct, tx.SenderAddress())
	if m.cfg.StrictNonce && tx.Nonce() != n {
		return fmt.Errorf("nonce %d does not match account nonce %d", tx.Nonce(), n)
	}
	v := make([]byte, 8)
	binary.BigEndian.PutUint64(v, n+1)
	acct.Set(tx.SenderAddress(), v)
	return nil
}

func (m *Module) AfterCommandExecute(ctx *statemachine.TransactionExecuteContext) error {
	if ExecutesInvalid(ctx.Transaction().Params()) {
		return errors.New("transaction refused after its command, as programmed")
	}
	return nil
}

func (m *Module) GetCommand(name string) (statemachine.Command, bool) {
	if name == CommandName {
		return command{}, true
	}
	return nil, false
}

type command struct{}

func (command) ID() uint32   { return 0 }
func (command) Name() string { return CommandName }

func (command) Verify(ctx *statemachine.TransactionVerifyContext) statemachine.VerifyResult {
	if _, err := DecodeProgram(ctx.Transaction().Params()); err != nil {
		return statemachine.NewVerifyResultError(err)
	}
	return statemachine.NewVerifyResultOK()
}

func (command) Execute(ctx *statemachine.TransactionExecuteContext) error {
	prog, err := DecodeProgram(ctx.Transaction().Params())
	if err != nil {
		return err
	}
	for _, in := range prog {
		switch in.Op {
		case OpSet:
			ctx.GetStore(StorePrefix(in.Store), SubPrefix(in.Sub)).Set(in.Key, in.Val)
		case OpDel:
			ctx.GetStore(StorePrefix(in.Store), SubPrefix(in.Sub)).Del(in.Key)
		case OpEvent:
			if err := ctx.EventQueue().Add(Name, "ev", in.Val, []codec.Hex{in.Key}); err != nil {
				return err
			}
		case OpEventU:
			if err := ctx.EventQueue().AddUnrevertible(Name, "evu", in.Val, []codec.Hex{in.Key}); err != nil {
				return err
			}
		case OpGet:
			_, _ = ctx.GetStore(StorePrefix(in.Store), SubPrefix(in.Sub)).Get(in.Key)
		case OpHas:
			_ = ctx.GetStore(StorePrefix(in.Store), SubPrefix(in.Sub)).Has(in.Key)
		case OpFail:
			return errors.New("command failed as programmed")
		case OpEnd:
			return nil
		}
	}
	return nil
}
