// C10: sparse Merkle trie - root commits to exactly the map; proofs sound and complete (seqsim).
package trie

import (
	"bytes"
	"fmt"
	"os"
	"sort"
	"testing"
	"time"

	"pgregory.net/rapid"

	"github.com/LiskHQ/lisk-engine/pkg/codec"
	"github.com/LiskHQ/lisk-engine/pkg/trie/smt"

	"verif/sim/refmodel"
	"verif/sim/simkit"
)

func TestMain(m *testing.M) {
	p := os.Getenv("VERIF_PROP")
	if p == "" {
		p = "C10"
	}
	simkit.Init(p)
	code := m.Run()
	simkit.Flush()
	os.Exit(code)
}

type smtOp struct {
	Op   string   `json:"op"`
	Keys []string `json:"keys,omitempty"`
	Vals []string `json:"vals,omitempty"`
}

// key families: few distinct bytes per position so that keys share long prefixes and cross several 8-bit subtrees
func genKey(t *rapid.T, keyLen int, family int) []byte {
	k := make([]byte, keyLen)
	switch family {
	case 0: // uniform
		for i := range k {
			k[i] = byte(simkit.Int(t, "kb", 0, 255))
		}
	case 1: // long shared prefix, differences in the last two bytes, a few bit patterns
		for i := range k {
			k[i] = 0xAA
		}
		pat := []byte{0x00, 0x01, 0x02, 0x80, 0x81, 0xfe, 0xff}
		k[keyLen-1] = pat[simkit.Int(t, "kp", 0, len(pat)-1)]
		if keyLen > 1 {
			k[keyLen-2] = pat[simkit.Int(t, "kp", 0, len(pat)-1)]
		}
	default: // differences at subtree boundaries (bytes 0,1,2) and deep
		pat := []byte{0x00, 0x01, 0x7f, 0x80, 0xff}
		for i := range k {
			k[i] = 0x55
		}
		for _, pos := range []int{0, 1, 2, keyLen - 1} {
			if pos < keyLen && pos >= 0 {
				k[pos] = pat[simkit.Int(t, "kq", 0, len(pat)-1)]
			}
		}
	}
	return k
}

func TestC10(t *testing.T) {
	rapid.Check(t, func(t *rapid.T) {
		simkit.AddRun()
		defer simkit.Watch(60*time.Second, "C10 run")()
		simkit.Guard(func() { runC10(t, "C10") })
	})
}

func runC10(t *rapid.T, prop string) {
	keyLen := []int{1, 2, 3, 32, 38}[simkit.Int(t, "keylen", 0, 4)]
	family := simkit.Int(t, "family", 0, 2)
	store := newMemStore()
	model := map[string][]byte{}
	var hist []smtOp
	fail := func(oracle, witness, format string, args ...interface{}) {
		simkit.Sample(map[string]interface{}{"keyLen": keyLen, "history": hist})
		simkit.Fail(t, prop, oracle, witness, format+" | keyLen=%d history=%+v", append(args, keyLen, hist)...)
	}
	failC09 := func(witness, format string, args ...interface{}) {
		if prop != "C09" {
			simkit.Probe("verifier_panic_on_tampered_input(C09)")
			return
		}
		simkit.Fail(t, "C09", "smt-verify-panic", witness, format+" | keyLen=%d history=%+v", append(args, keyLen, hist)...)
	}
	// key pool
	nPool := simkit.Int(t, "npool", 1, 20)
	pool := make([][]byte, 0, nPool)
	seen := map[string]bool{}
	for i := 0; i < nPool; i++ {
		k := genKey(t, keyLen, family)
		if !seen[string(k)] {
			seen[string(k)] = true
			pool = append(pool, k)
		}
	}
	valCtr := 0
	newVal := func() []byte { valCtr++; return refmodel.H([]byte(fmt.Sprintf("val%d", valCtr))) }
	tr := smt.NewTrie(nil, keyLen)
	root := append([]byte(nil), refmodel.EmptyHash...)
	nontrivial := false

	checkRoot := func(where string) {
		want := refmodel.SMTRoot(model)
		if !bytes.Equal(root, want) {
			fail("root", where, "root %x differs from the LIP-0039 root %x of the map (%d entries) after %s", root, want, len(model), where)
		}
	}

	if simkit.Chance(t, "dense", 1, 25) {
		// a densely populated level: (nearly) every value of one key byte occurs under a common prefix, so that one
		// 8-bit subtree is (nearly) full - 256 nodes is the most its one-byte node count can describe
		base := append([]byte(nil), pool[0]...)
		pos := simkit.Int(t, "densepos", 0, keyLen-1)
		missing := simkit.Int(t, "densemissing", 0, 2)
		var keys, vals [][]byte
		rec := smtOp{Op: fmt.Sprintf("dense(byte %d, %d of 256 values under %x)", pos, 256-missing, base[:pos])}
		for b := missing; b < 256; b++ {
			k := append([]byte(nil), base...)
			k[pos] = byte(b)
			keys = append(keys, k)
			vals = append(vals, newVal())
			if !seen[string(k)] {
				seen[string(k)] = true
				if b%16 == 0 || b > 250 {
					pool = append(pool, k)
				}
			}
		}
		store.begin()
		nr, err := tr.Update(store, keys, vals)
		if err != nil {
			fail("update", "error", "Update of a dense level returned %v", err)
		}
		store.commit()
		root = append([]byte(nil), nr...)
		for j, k := range keys {
			model[string(k)] = vals[j]
		}
		hist = append(hist, rec)
		simkit.Probe("dense_level")
		checkRoot("dense level")
		if simkit.Bool(t, "densereopen") {
			tr = smt.NewTrie(root, keyLen)
		}
	}
	nOps := simkit.Int(t, "nops", 1, 14)
	for i := 0; i < nOps; i++ {
		switch op := simkit.Int(t, "op", 0, 9); {
		case op <= 4: // update batch
			n := simkit.Int(t, "batch", 1, 8)
			var keys, vals [][]byte
			used := map[string]bool{}
			rec := smtOp{Op: "update"}
			for j := 0; j < n; j++ {
				k := pool[simkit.Int(t, "pk", 0, len(pool)-1)]
				if used[string(k)] {
					continue
				}
				used[string(k)] = true
				var v []byte
				if simkit.Chance(t, "del", 1, 4) {
					v = []byte{}
				} else {
					v = newVal()
				}
				keys = append(keys, k)
				vals = append(vals, v)
				rec.Keys = append(rec.Keys, fmt.Sprintf("%x", k))
				rec.Vals = append(rec.Vals, fmt.Sprintf("%x", v))
			}
			lost := simkit.Chance(t, "lost", 1, 6)
			prevRoot := root
			store.begin()
			nr, err := tr.Update(store, keys, vals)
			if err != nil {
				fail("update", "error", "Update returned %v", err)
			}
			if lost {
				rec.Op = "update-lost"
				hist = append(hist, rec)
				store.drop()
				simkit.Fault("lost_batch")
				tr = smt.NewTrie(prevRoot, keyLen)
				root = prevRoot
				// the trie must continue from the previous root: prove something right away
			} else {
				hist = append(hist, rec)
				store.commit()
				root = append([]byte(nil), nr...)
				for j, k := range keys {
					if len(vals[j]) == 0 {
						if _, ok := model[string(k)]; ok {
							nontrivial = true
						}
						delete(model, string(k))
					} else {
						model[string(k)] = vals[j]
					}
				}
			}
			checkRoot(rec.Op)
		case op <= 7: // prove + verify + tamper
			nq := simkit.Int(t, "nq", 1, 5)
			var qs [][]byte
			used := map[string]bool{}
			rec := smtOp{Op: "prove"}
			for j := 0; j < nq; j++ {
				var k []byte
				if simkit.Chance(t, "absent", 1, 3) {
					k = genKey(t, keyLen, family)
				} else {
					k = pool[simkit.Int(t, "pk", 0, len(pool)-1)]
				}
				if used[string(k)] {
					continue
				}
				used[string(k)] = true
				qs = append(qs, k)
				rec.Keys = append(rec.Keys, fmt.Sprintf("%x", k))
			}
			hist = append(hist, rec)
			proof, err := tr.Prove(store, qs)
			if err != nil {
				fail("prove", "error", "Prove(%v) returned %v", rec.Keys, err)
			}
			ok, err := smt.Verify(qs, proof, root, keyLen)
			if err != nil || !ok {
				fail("proof", "complete", "proof generated for %v does not verify against the current root: ok=%v err=%v", rec.Keys, ok, err)
			}
			if msg := claimsAgree(qs, proof, model); msg != "" {
				fail("proof", "claims", "generated proof makes a claim that disagrees with the map: %s", msg)
			}
			// through the codec, as it travels over the ABI
			dec := &smt.Proof{}
			if err := dec.Decode(proof.Encode()); err != nil {
				fail("proof", "codec", "proof does not decode: %v", err)
			}
			if ok, err := smt.Verify(qs, dec, root, keyLen); err != nil || !ok {
				fail("proof", "codec", "decoded proof does not verify: ok=%v err=%v", ok, err)
			}
			// single-field tampering
			for r := 0; r < 3; r++ {
				tp, troot, what := tamperSMT(t, dec, root)
				okT, panicked := safeVerify(qs, tp, troot, keyLen)
				if panicked != nil {
					failC09("verify-panic", "smt.Verify panicked on a tampered proof (%s): %v", what, panicked)
				}
				simkit.Fault("proof_tamper")
				if okT {
					if !bytes.Equal(troot, root) {
						fail("proof", "sound-root", "tampered input (%s) verifies against a different root %x", what, troot)
					}
					if msg := claimsAgree(qs, tp, model); msg != "" {
						fail("proof", "sound", "tampered proof (%s) still verifies and claims: %s", what, msg)
					}
					simkit.Probe("tamper_still_valid_but_true")
				}
			}
			// the same proof presented for other keys: a claimed key replaced by a key of the map or by a neighbour of
			// the node the proof ends at (same leading bits, differing further down)
			if len(qs) > 0 {
				mkeys := make([]string, 0, len(model))
				for mk := range model {
					mkeys = append(mkeys, mk)
				}
				sort.Strings(mkeys)
				for r := 0; r < 3; r++ {
					qs2 := make([][]byte, len(qs))
					for i := range qs {
						qs2[i] = append([]byte(nil), qs[i]...)
					}
					i := simkit.Int(t, "relabel", 0, len(qs2)-1)
					what := ""
					if len(mkeys) > 0 && simkit.Bool(t, "relabelfrommap") {
						qs2[i] = []byte(mkeys[simkit.Int(t, "relabelkey", 0, len(mkeys)-1)])
						what = "claimed key replaced by a key of the map"
					} else {
						base := qs2[i]
						if i < len(dec.Queries) && len(dec.Queries[i].Key) == len(base) && simkit.Bool(t, "relabelnear") {
							base = append([]byte(nil), dec.Queries[i].Key...)
						}
						bit := simkit.Int(t, "relabelbit", 0, len(base)*8-1)
						base[bit/8] ^= 0x80 >> uint(bit%8)
						qs2[i] = base
						what = fmt.Sprintf("claimed key replaced by a key differing in bit %d from the proof's node", bit)
					}
					if bytes.Equal(qs2[i], qs[i]) {
						continue
					}
					okT, panicked := safeVerify(qs2, dec, root, keyLen)
					if panicked != nil {
						failC09("verify-panic", "smt.Verify panicked on a relabelled claim (%s): %v", what, panicked)
					}
					simkit.Fault("proof_presented_for_other_keys")
					if okT {
						if msg := claimsAgree(qs2, dec, model); msg != "" {
							fail("proof", "sound-relabel", "a valid proof for %x still verifies when presented for %x (%s) and then claims: %s", qs, qs2, what, msg)
						}
						simkit.Probe("relabel_still_valid_but_true")
					}
				}
			}
			nontrivial = true
		case op == 8: // reopen from stored nodes at the latest root
			tr = smt.NewTrie(root, keyLen)
			hist = append(hist, smtOp{Op: "reopen"})
			simkit.Probe("reopen")
		default: // same map through a different history => same root
			store2 := newMemStore()
			tr2 := smt.NewTrie(nil, keyLen)
			keys := make([]string, 0, len(model))
			for k := range model {
				keys = append(keys, k)
			}
			sort.Strings(keys)
			// drawn permutation
			for i := len(keys) - 1; i > 0; i-- {
				j := simkit.Int(t, "perm", 0, i)
				keys[i], keys[j] = keys[j], keys[i]
			}
			r2 := append([]byte(nil), refmodel.EmptyHash...)
			for len(keys) > 0 {
				n := simkit.Int(t, "rebatch", 1, len(keys))
				var ks, vs [][]byte
				for _, k := range keys[:n] {
					ks = append(ks, []byte(k))
					vs = append(vs, model[k])
				}
				keys = keys[n:]
				nr, err := tr2.Update(store2, ks, vs)
				if err != nil {
					fail("update", "error", "rebuild Update returned %v", err)
				}
				r2 = nr
			}
			hist = append(hist, smtOp{Op: "rebuild-other-order"})
			if !bytes.Equal(r2, root) {
				fail("root", "history-independence", "same map built in another order/batching gives root %x, incremental root is %x", r2, root)
			}
		}
	}
	if nontrivial {
		simkit.Distinct(fmt.Sprintf("%d %+v", keyLen, hist))
	}
	simkit.AddSteps(int64(len(hist)))
	simkit.Sample(map[string]interface{}{"keyLen": keyLen, "history": hist})
}

// claimsAgree returns "" if every claim (presence with value / absence) the proof makes about the query keys and
// about the keys it names agrees with the model.
func claimsAgree(qs [][]byte, p *smt.Proof, model map[string][]byte) string {
	if len(qs) != len(p.Queries) {
		return ""
	}
	for i, q := range qs {
		e := p.Queries[i]
		mv, present := model[string(q)]
		if bytes.Equal(e.Key, q) {
			if len(e.Value) == 0 {
				if present {
					return fmt.Sprintf("key %x claimed absent but is present", q)
				}
			} else {
				if !present {
					return fmt.Sprintf("key %x claimed present with %x but is absent", q, []byte(e.Value))
				}
				if !bytes.Equal(mv, e.Value) {
					return fmt.Sprintf("key %x claimed to have value %x, map has %x", q, []byte(e.Value), mv)
				}
			}
			continue
		}
		// another leaf (or nothing) sits on q's path: q is claimed absent
		if present {
			return fmt.Sprintf("key %x claimed absent (path leads to %x) but is present", q, []byte(e.Key))
		}
		// (the leaf the proof names on q's path is not a claim about a queried key; only q's absence counts)
	}
	return ""
}

func safeVerify(qs [][]byte, p *smt.Proof, root []byte, keyLen int) (ok bool, panicked interface{}) {
	defer func() {
		if r := recover(); r != nil {
			panicked = r
		}
	}()
	ok, err := smt.Verify(qs, p, root, keyLen)
	if err != nil {
		return false, nil
	}
	return ok, nil
}

func cloneProof(p *smt.Proof) *smt.Proof {
	c := &smt.Proof{}
	for _, s := range p.SiblingHashes {
		c.SiblingHashes = append(c.SiblingHashes, append(codec.Hex(nil), s...))
	}
	for _, q := range p.Queries {
		c.Queries = append(c.Queries, &smt.QueryProof{
			Key:    append(codec.Hex(nil), q.Key...),
			Value:  append(codec.Hex(nil), q.Value...),
			Bitmap: append(codec.Hex(nil), q.Bitmap...),
		})
	}
	return c
}

func flip(t *rapid.T, b []byte) {
	if len(b) == 0 {
		return
	}
	i := simkit.Int(t, "flipbyte", 0, len(b)-1)
	b[i] ^= 1 << uint(simkit.Int(t, "flipbit", 0, 7))
}

func tamperSMT(t *rapid.T, p *smt.Proof, root []byte) (*smt.Proof, []byte, string) {
	c := cloneProof(p)
	r := append([]byte(nil), root...)
	switch simkit.Int(t, "tamper", 0, 8) {
	case 0:
		if len(c.SiblingHashes) > 0 {
			flip(t, c.SiblingHashes[simkit.Int(t, "ti", 0, len(c.SiblingHashes)-1)])
			return c, r, "sibling hash bit"
		}
		c.SiblingHashes = append(c.SiblingHashes, refmodel.H([]byte("x")))
		return c, r, "extra sibling hash"
	case 1:
		q := c.Queries[simkit.Int(t, "ti", 0, len(c.Queries)-1)]
		if len(q.Bitmap) > 0 {
			flip(t, q.Bitmap)
			return c, r, "bitmap bit"
		}
		q.Bitmap = codec.Hex{byte(simkit.Int(t, "bm", 1, 255))}
		return c, r, "bitmap set"
	case 2:
		flip(t, c.Queries[simkit.Int(t, "ti", 0, len(c.Queries)-1)].Key)
		return c, r, "key bit"
	case 3:
		q := c.Queries[simkit.Int(t, "ti", 0, len(c.Queries)-1)]
		if len(q.Value) > 0 {
			flip(t, q.Value)
			return c, r, "value bit"
		}
		q.Value = refmodel.H([]byte("forged"))
		return c, r, "value forged for empty"
	case 4:
		q := c.Queries[simkit.Int(t, "ti", 0, len(c.Queries)-1)]
		q.Value = codec.Hex{}
		return c, r, "value emptied"
	case 5:
		if len(c.SiblingHashes) > 0 {
			c.SiblingHashes = c.SiblingHashes[:len(c.SiblingHashes)-1]
			return c, r, "sibling dropped"
		}
		flip(t, r)
		return c, r, "root bit"
	case 6:
		flip(t, r)
		return c, r, "root bit"
	case 7:
		q := c.Queries[simkit.Int(t, "ti", 0, len(c.Queries)-1)]
		q.Bitmap = append(codec.Hex{0}, q.Bitmap...)
		return c, r, "bitmap zero-prefixed"
	default:
		q := c.Queries[simkit.Int(t, "ti", 0, len(c.Queries)-1)]
		n := simkit.Int(t, "cut", 0, len(q.Bitmap))
		q.Bitmap = q.Bitmap[:n]
		return c, r, "bitmap truncated"
	}
}
