package trie

import "sync"

// memStore is the storage seam of the tries: a map with an optional pending write buffer, so that a batch of node
// writes can be lost as a whole (process died before the batch reached the database).
type memStore struct {
	base    map[string][]byte
	pending map[string]*[]byte // nil pointer value = delete
	buffer  bool
	mu      sync.Mutex
	Reads   int
	Writes  int
}

func newMemStore() *memStore { return &memStore{base: map[string][]byte{}} }

func (s *memStore) Get(key []byte) ([]byte, bool) {
	s.mu.Lock()
	defer s.mu.Unlock()
	s.Reads++
	if s.buffer {
		if p, ok := s.pending[string(key)]; ok {
			if p == nil {
				return nil, false
			}
			return append([]byte(nil), (*p)...), true
		}
	}
	v, ok := s.base[string(key)]
	if !ok {
		return nil, false
	}
	return append([]byte(nil), v...), true
}

func (s *memStore) Set(key, val []byte) {
	s.mu.Lock()
	defer s.mu.Unlock()
	s.Writes++
	v := append([]byte(nil), val...)
	if s.buffer {
		s.pending[string(key)] = &v
		return
	}
	s.base[string(key)] = v
}

func (s *memStore) Del(key []byte) {
	s.mu.Lock()
	defer s.mu.Unlock()
	s.Writes++
	if s.buffer {
		s.pending[string(key)] = nil
		return
	}
	delete(s.base, string(key))
}

func (s *memStore) begin() { s.buffer = true; s.pending = map[string]*[]byte{} }
func (s *memStore) commit() {
	for k, p := range s.pending {
		if p == nil {
			delete(s.base, k)
		} else {
			s.base[k] = *p
		}
	}
	s.buffer = false
	s.pending = nil
}
func (s *memStore) drop() { s.buffer = false; s.pending = nil }
