// C11: regular Merkle tree - incremental, batch and proof computations agree (seqsim).
package trie

import (
	"bytes"
	"fmt"
	"sort"
	"testing"
	"time"

	"pgregory.net/rapid"

	"github.com/LiskHQ/lisk-engine/pkg/trie/rmt"

	"verif/sim/refmodel"
	"verif/sim/simkit"
)

type rmtOp struct {
	Op   string `json:"op"`
	N    int    `json:"n,omitempty"`
	Idxs []int  `json:"idxs,omitempty"`
}

func TestC11(t *testing.T) {
	rapid.Check(t, func(t *rapid.T) {
		simkit.AddRun()
		defer simkit.Watch(60*time.Second, "C11 run")()
		simkit.Guard(func() { runC11(t, "C11") })
	})
}

func safely(f func()) (p interface{}) {
	defer func() { p = recover() }()
	f()
	return nil
}

func runC11(t *rapid.T, prop string) {
	store := newMemStore()
	tree := rmt.NewRegularMerkleTree(store)
	var list [][]byte
	var hist []rmtOp
	pathAt := map[int][][]byte{0: {}} // append path when the tree had n leaves
	ctr := 0
	newLeaf := func() []byte { ctr++; return []byte(fmt.Sprintf("leaf-%d", ctr)) }
	fail := func(oracle, witness, format string, args ...interface{}) {
		simkit.Sample(map[string]interface{}{"history": hist})
		simkit.Fail(t, prop, oracle, witness, format+" | size=%d history=%+v", append(args, len(list), hist)...)
	}
	failC09 := func(witness, format string, args ...interface{}) {
		if prop != "C09" {
			simkit.Probe("verifier_panic_on_tampered_input(C09)")
			return
		}
		simkit.Fail(t, "C09", "rmt-verify-panic", witness, format+" | size=%d history=%+v", append(args, len(list), hist)...)
	}
	copyPath := func(p [][]byte) [][]byte {
		c := make([][]byte, len(p))
		for i := range p {
			c[i] = append([]byte(nil), p[i]...)
		}
		return c
	}
	checkRoot := func(where string) {
		want := refmodel.RMTRoot(list)
		if !bytes.Equal(tree.Root(), want) {
			fail("root", where, "tree root %x differs from the LIP-0031 root %x of the %d-element list after %s", tree.Root(), want, len(list), where)
		}
		if got := rmt.CalculateRoot(list); !bytes.Equal(got, want) {
			fail("root", "batch", "CalculateRoot of %d elements is %x, LIP-0031 root is %x", len(list), got, want)
		}
		if tree.Size() != uint64(len(list)) {
			fail("size", where, "Size() = %d, list has %d", tree.Size(), len(list))
		}
	}
	// start at a biased length: 0..70 and 2^k +- 1
	target := simkit.Int(t, "start", 0, 40)
	if simkit.Chance(t, "pow2", 1, 3) {
		target = (1 << uint(simkit.Int(t, "k", 1, 7))) + simkit.Int(t, "d", -1, 1)
	}
	appendOne := func() {
		leaf := newLeaf()
		// predicted append from the append path
		var pred *rmt.RootWithAppendPath
		// (a caller hands over what AppendPath() returns, as it is, or a copy of it; it may ask about another leaf first)
		path := tree.AppendPath()
		if simkit.Bool(t, "predictfromcopy") {
			path = copyPath(path)
		}
		predPanic := safely(func() {
			if simkit.Chance(t, "predicttwice", 1, 3) {
				_ = rmt.CalculateRootFromAppendPath(newLeaf(), path, tree.Size())
				simkit.Probe("predicted_for_an_alternative_leaf_first")
			}
			pred = rmt.CalculateRootFromAppendPath(leaf, path, tree.Size())
		})
		if err := tree.Append(leaf); err != nil {
			fail("append", "error", "Append returned %v", err)
		}
		list = append(list, leaf)
		pathAt[len(list)] = copyPath(tree.AppendPath())
		if predPanic != nil {
			fail("predict", "panic", "CalculateRootFromAppendPath panicked at size %d: %v", len(list)-1, predPanic)
		}
		if !bytes.Equal(pred.Root, tree.Root()) {
			fail("predict", "root", "root predicted from the append path %x differs from the root after the real append %x (size %d)", pred.Root, tree.Root(), len(list))
		}
		if pred.Size != tree.Size() {
			fail("predict", "size", "predicted size %d, real %d", pred.Size, tree.Size())
		}
		if !samePath(pred.AppendPath, tree.AppendPath()) {
			fail("predict", "appendpath", "append path predicted from the append path differs from the one after the real append at size %d: %s vs %s", len(list), fmtPath(pred.AppendPath), fmtPath(tree.AppendPath()))
		}
	}
	for len(list) < target {
		appendOne()
	}
	hist = append(hist, rmtOp{Op: "append*", N: target})
	checkRoot("initial appends")
	nontrivial := false

	nOps := simkit.Int(t, "nops", 1, 12)
	for i := 0; i < nOps; i++ {
		switch op := simkit.Int(t, "op", 0, 9); {
		case op <= 2:
			n := simkit.Int(t, "nappend", 1, 3)
			for j := 0; j < n; j++ {
				appendOne()
			}
			hist = append(hist, rmtOp{Op: "append", N: n})
			checkRoot("append")
		case op <= 4: // proof for a subset of leaves
			if len(list) == 0 {
				continue
			}
			idxs := drawSubset(t, len(list), 4)
			var q [][]byte
			for _, ix := range idxs {
				q = append(q, refmodel.RMTLeaf(list[ix]))
			}
			hist = append(hist, rmtOp{Op: "proof", Idxs: idxs})
			var proof *rmt.Proof
			var err error
			if p := safely(func() { proof, err = tree.GenerateProof(q) }); p != nil {
				fail("proof", "panic", "GenerateProof(%v) panicked: %v", idxs, p)
			}
			if err != nil {
				fail("proof", "error", "GenerateProof(%v) returned %v", idxs, err)
			}
			if !rmt.VerifyProof(q, proof, tree.Root()) {
				fail("proof", "complete", "inclusion proof generated for leaves %v does not verify against the root", idxs)
			}
			// other leaf data / other root must fail
			q2 := append([][]byte(nil), q...)
			j := simkit.Int(t, "alter", 0, len(q2)-1)
			q2[j] = refmodel.RMTLeaf([]byte("not-a-leaf"))
			ok := false
			if p := safely(func() { ok = rmt.VerifyProof(q2, proof, tree.Root()) }); p != nil {
				failC09("verify-panic", "VerifyProof panicked on altered leaf data: %v", p)
			}
			if ok {
				fail("proof", "sound", "proof for leaves %v verifies with leaf %d replaced by other data", idxs, idxs[j])
			}
			otherRoot := refmodel.H(tree.Root())
			if rmt.VerifyProof(q, proof, otherRoot) {
				fail("proof", "sound-root", "proof verifies against another root")
			}
			// tampered proof: never a panic; if it verifies it must be for the same leaves
			tp := &rmt.Proof{Size: proof.Size, Idxs: append([]uint64(nil), proof.Idxs...)}
			for _, s := range proof.SiblingHashes {
				tp.SiblingHashes = append(tp.SiblingHashes, append([]byte(nil), s...))
			}
			what := ""
			switch simkit.Int(t, "tamper", 0, 4) {
			case 0:
				if len(tp.SiblingHashes) > 0 {
					tp.SiblingHashes = tp.SiblingHashes[:len(tp.SiblingHashes)-1]
					what = "sibling dropped"
				}
			case 1:
				if len(tp.SiblingHashes) > 0 {
					flip(t, tp.SiblingHashes[simkit.Int(t, "ti", 0, len(tp.SiblingHashes)-1)])
					what = "sibling bit"
				}
			case 2:
				tp.Size = uint64(simkit.Int(t, "tsize", 0, 2*len(list)+2))
				what = "size"
			case 3:
				tp.Idxs[simkit.Int(t, "ti", 0, len(tp.Idxs)-1)] = uint64(simkit.Int(t, "tidx", 0, 4*len(list)+4))
				what = "index"
			default:
				tp.Idxs = tp.Idxs[:len(tp.Idxs)-1]
				what = "index dropped"
			}
			if what != "" {
				simkit.Fault("proof_tamper")
				okT := false
				if p := safely(func() { okT = rmt.VerifyProof(q, tp, tree.Root()) }); p != nil {
					failC09("verify-panic", "VerifyProof panicked on a tampered proof (%s): %v", what, p)
				}
				_ = okT
			}
			// update through the proof
			var upd [][]byte
			mod := append([][]byte(nil), list...)
			for _, ix := range idxs {
				nl := newLeaf()
				upd = append(upd, nl)
				mod[ix] = nl
			}
			r, err := rmt.CalculateRootFromUpdateData(upd, proof)
			if err != nil {
				fail("update-proof", "error", "CalculateRootFromUpdateData returned %v", err)
			}
			if want := refmodel.RMTRoot(mod); !bytes.Equal(r, want) {
				fail("update-proof", "root", "root computed by updating leaves %v through the proof is %x, root of the modified list is %x", idxs, r, want)
			}
			nontrivial = true
		case op == 5: // update in place
			if len(list) == 0 {
				continue
			}
			idxs := drawSubset(t, len(list), 3)
			var q [][]byte
			for _, ix := range idxs {
				q = append(q, refmodel.RMTLeaf(list[ix]))
			}
			proof, err := tree.GenerateProof(q)
			if err != nil {
				fail("proof", "error", "GenerateProof(%v) returned %v", idxs, err)
			}
			var upd [][]byte
			for _, ix := range idxs {
				nl := newLeaf()
				upd = append(upd, nl)
				list[ix] = nl
			}
			hist = append(hist, rmtOp{Op: "update", Idxs: idxs})
			if err := tree.Update(proof.Idxs, upd); err != nil {
				fail("update", "error", "Update(%v) returned %v", idxs, err)
			}
			checkRoot("update")
			nontrivial = true
		case op <= 7: // right witness
			if len(list) == 0 {
				continue
			}
			pos := simkit.Int(t, "wpos", 0, len(list))
			hist = append(hist, rmtOp{Op: "witness", N: pos})
			var w [][]byte
			var err error
			if p := safely(func() { w, err = tree.GenerateRightWitness(uint64(pos)) }); p != nil {
				fail("witness", "panic", "GenerateRightWitness(%d) panicked: %v", pos, p)
			}
			if err != nil {
				fail("witness", "error", "GenerateRightWitness(%d) returned %v", pos, err)
			}
			if pos > 0 && pos < len(list) {
				ok := false
				if p := safely(func() { ok = rmt.VerifyRightWitness(uint64(pos), copyPath(pathAt[pos]), w, tree.Root()) }); p != nil {
					fail("witness", "panic", "VerifyRightWitness(%d) panicked: %v", pos, p)
				}
				if !ok && !updatedSince(hist) {
					fail("witness", "root", "append path of the first %d leaves and the right witness do not reconstruct the root", pos)
				}
				nontrivial = true
			}
		default: // reload from storage
			hist = append(hist, rmtOp{Op: "reload"})
			nt, err := rmt.NewRegularMerkleTreeWithPastData(store)
			if err != nil {
				if len(list) == 0 {
					continue // nothing was ever stored
				}
				fail("reload", "error", "reload of a tree with %d leaves failed: %v", len(list), err)
			}
			if !bytes.Equal(nt.Root(), tree.Root()) || nt.Size() != tree.Size() || !samePath(nt.AppendPath(), tree.AppendPath()) {
				fail("reload", "state", "reloaded tree differs: root %x/%x size %d/%d path %s/%s", nt.Root(), tree.Root(), nt.Size(), tree.Size(), fmtPath(nt.AppendPath()), fmtPath(tree.AppendPath()))
			}
			tree = nt
			simkit.Probe("reload")
			nontrivial = true
		}
	}
	if nontrivial {
		simkit.Distinct(fmt.Sprintf("%+v", hist))
	}
	simkit.AddSteps(int64(len(hist)))
	simkit.Sample(map[string]interface{}{"history": hist})
}

// updatedSince: leaf updates change inner nodes, so append paths recorded before an update are stale by design.
func updatedSince(h []rmtOp) bool {
	for _, o := range h {
		if o.Op == "update" {
			return true
		}
	}
	return false
}

func drawSubset(t *rapid.T, n, max int) []int {
	k := simkit.Int(t, "subset", 1, max)
	set := map[int]bool{}
	for i := 0; i < k; i++ {
		set[simkit.Int(t, "leaf", 0, n-1)] = true
	}
	var out []int
	for i := range set {
		out = append(out, i)
	}
	sort.Ints(out)
	return out
}

func samePath(a, b [][]byte) bool {
	if len(a) != len(b) {
		return false
	}
	for i := range a {
		if !bytes.Equal(a[i], b[i]) {
			return false
		}
	}
	return true
}

func fmtPath(p [][]byte) string {
	s := "["
	for _, h := range p {
		s += fmt.Sprintf("%x ", h[:4])
	}
	return s + "]"
}

// TestC09Trie runs the same histories but reports only what C09 is about: a verifier that panics on malformed input.
func TestC09Trie(t *testing.T) {
	rapid.Check(t, func(t *rapid.T) {
		simkit.AddRun()
		defer simkit.Watch(60*time.Second, "C09 trie run")()
		simkit.Guard(func() {
			if simkit.Bool(t, "which") {
				runC10(t, "C09")
			} else {
				runC11(t, "C09")
			}
		})
	})
}
