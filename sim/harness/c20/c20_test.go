// C20: shared chain data is race-free and deadlock-free under concurrent use (schedsim, -race build).
// The kernel hides its own hand-offs from the race detector, so a report means the program itself did not order
// two conflicting accesses; the schedule, and with it the report, is a function of the seed.
package c20

import (
	"bytes"
	"context"
	"errors"
	"fmt"
	"os"
	"runtime"
	"sort"
	"strings"
	"sync/atomic"
	"testing"
	"time"

	"github.com/anishathalye/porcupine"
	"pgregory.net/rapid"

	"github.com/LiskHQ/lisk-engine/pkg/blockchain"
	"github.com/LiskHQ/lisk-engine/pkg/codec"
	"github.com/LiskHQ/lisk-engine/pkg/consensus/certificate"
	lsync "github.com/LiskHQ/lisk-engine/pkg/consensus/sync"
	"github.com/LiskHQ/lisk-engine/pkg/consensus/validator"
	"github.com/LiskHQ/lisk-engine/pkg/crypto"
	"github.com/LiskHQ/lisk-engine/pkg/db"
	"github.com/LiskHQ/lisk-engine/pkg/db/diffdb"
	"github.com/LiskHQ/lisk-engine/pkg/event"
	"github.com/LiskHQ/lisk-engine/pkg/log"
	"github.com/LiskHQ/lisk-engine/pkg/p2p"
	"github.com/LiskHQ/lisk-engine/pkg/trie/rmt"

	"verif/sim/simkit"
	"verif/sim/simrt"
)

const prop = "C20"

func TestMain(m *testing.M) {
	simkit.Init(prop)
	code := m.Run()
	simkit.Flush()
	os.Exit(code)
}

type rapidChooser struct{ t *rapid.T }

func (c rapidChooser) Intn(label string, n int) int {
	if n <= 1 {
		return 0
	}
	return rapid.IntRange(0, n-1).Draw(c.t, label)
}

func TestC20(t *testing.T) {
	rapid.Check(t, func(t *rapid.T) {
		simkit.AddRun()
		defer simkit.Watch(180*time.Second, "C20 run")()
		simkit.Guard(func() { runC20(t) })
	})
}

// ---- race report capture ---------------------------------------------------------------------------------------

var raceLogOffset int64

// newRaceReports returns the text the race detector wrote since the last call (GORACE log_path must point to
// $VERIF_OUT/race; the runtime appends .<pid>).
func newRaceReports() string {
	dir := os.Getenv("VERIF_OUT")
	if dir == "" {
		return ""
	}
	path := fmt.Sprintf("%s/race.%d", dir, os.Getpid())
	data, err := os.ReadFile(path)
	if err != nil || int64(len(data)) <= raceLogOffset {
		return ""
	}
	out := string(data[raceLogOffset:])
	raceLogOffset = int64(len(data))
	return out
}

// raceWitness reduces a report to the sorted pair of innermost repository functions of the two accesses.
func raceWitness(report string) (string, string) {
	var tops []string
	lines := strings.Split(report, "\n")
	inAccess := false
	for _, ln := range lines {
		l := strings.TrimSpace(ln)
		if strings.HasPrefix(l, "Write at") || strings.HasPrefix(l, "Read at") || strings.HasPrefix(l, "Previous write at") || strings.HasPrefix(l, "Previous read at") {
			inAccess = true
			continue
		}
		if strings.HasPrefix(l, "Goroutine ") {
			inAccess = false
		}
		if inAccess && strings.HasPrefix(l, "github.com/LiskHQ/lisk-engine/") {
			fn := strings.TrimPrefix(l, "github.com/LiskHQ/lisk-engine/")
			if i := strings.Index(fn, "()"); i > 0 {
				fn = fn[:i]
			}
			fn = strings.ReplaceAll(fn, " ", "")
			tops = append(tops, fn)
			inAccess = false
		}
	}
	if len(tops) == 0 {
		return "unattributed", report
	}
	if len(tops) > 2 {
		tops = tops[:2]
	}
	sort.Strings(tops)
	return strings.Join(tops, "|"), report
}

// ---- workload --------------------------------------------------------------------------------------------------

type readOp struct {
	kind int
	a, b int
}

type histEvent struct {
	client int
	kind   string // "add", "remove", "last"
	id     string
	call   uint64
	ret    uint64
	extra  string
}

func mkBlock(height uint32, prev []byte, salt int, nTx int) *blockchain.Block {
	txs := []*blockchain.Transaction{}
	for i := 0; i < nTx; i++ {
		tx := &blockchain.Transaction{Module: "sim", Command: "prog", Nonce: uint64(height)*10 + uint64(i), Fee: 1000, SenderPublicKey: bytes.Repeat([]byte{byte(salt)}, 32), Params: []byte{byte(salt), byte(i)}, Signatures: []codec.Hex{bytes.Repeat([]byte{1}, 64)}}
		tx.Init()
		txs = append(txs, tx)
	}
	h := &blockchain.BlockHeader{Version: 2, Height: height, Timestamp: 1_700_000_000 + height*10 + uint32(salt), PreviousBlockID: prev,
		GeneratorAddress: bytes.Repeat([]byte{byte(salt)}, 20), AggregateCommit: &blockchain.AggregateCommit{AggregationBits: []byte{}, CertificateSignature: []byte{}},
		StateRoot: crypto.Hash([]byte{1}), TransactionRoot: crypto.Hash([]byte{2}), AssetRoot: crypto.Hash([]byte{3}), EventRoot: crypto.Hash([]byte{4}), ValidatorsHash: crypto.Hash([]byte{5}), Signature: bytes.Repeat([]byte{9}, 64)}
	b := &blockchain.Block{Header: h, Transactions: txs, Assets: blockchain.BlockAssets{}}
	b.Init()
	return b
}

type nopWriter struct {
	data []byte
	err  error
}

func (w *nopWriter) Write(d []byte) { w.data = d }
func (w *nopWriter) Error(e error)  { w.err = e }

func runC20(t *rapid.T) {
	scenario := simkit.Int(t, "scenario", 0, 4)
	// everything random is drawn before the tasks start
	nReaders := simkit.Int(t, "nreaders", 1, 4)
	nStable := simkit.Int(t, "nstable", 2, 5) // blocks that are never removed
	cacheSize := simkit.Int(t, "cache", 2, 6)
	nWriterOps := simkit.Int(t, "nwriter", 1, 10)
	writerOps := make([]int, nWriterOps) // 0 add, 1 remove
	for i := range writerOps {
		writerOps[i] = []int{0, 0, 1}[simkit.Int(t, "wop", 0, 2)]
	}
	if simkit.Chance(t, "deepremoval", 1, 3) {
		// a reorganisation deeper than the block cache: m blocks added, then m removed in a row (the cache runs empty
		// and is refilled from the database while readers look at the tip)
		m := cacheSize + simkit.Int(t, "deeper", 0, 2)
		writerOps = writerOps[:0]
		for i := 0; i < m; i++ {
			writerOps = append(writerOps, 0)
		}
		for i := 0; i < m; i++ {
			writerOps = append(writerOps, 1)
		}
		nStable = cacheSize + 1 + simkit.Int(t, "morestable", 0, 2)
	}
	readerPlans := make([][]readOp, nReaders)
	for r := range readerPlans {
		n := simkit.Int(t, "nread", 1, 6)
		for i := 0; i < n; i++ {
			readerPlans[r] = append(readerPlans[r], readOp{kind: simkit.Int(t, "rkind", 0, 7), a: simkit.Int(t, "ra", 0, 9), b: simkit.Int(t, "rb", 0, 9)})
		}
	}
	nPoolOps := simkit.Int(t, "npool", 1, 8)
	poolOps := make([]int, nPoolOps*3)
	for i := range poolOps {
		poolOps[i] = simkit.Int(t, "pop", 0, 5)
	}
	nPub := simkit.Int(t, "npub", 1, 4)
	nSub := simkit.Int(t, "nsub", 1, 3)
	closeEarly := simkit.Bool(t, "closeearly")

	simrt.ResetClock()
	simrt.ResetStamp()
	k := simrt.NewKernel(rapidChooser{t})
	simrt.YieldLocks = true
	k.TimerBias = 0
	defer k.Shutdown()
	racesBefore := runtime.RaceErrors()
	_ = newRaceReports()

	var finished atomic.Int32
	var total int32
	spawn := func(name string, fn func()) {
		total++
		k.Go(name, "", func() { defer finished.Add(1); fn() })
	}
	var problems []string // written by tasks only through their own slot
	slots := make([][]string, 0)
	newSlot := func() *[]string { slots = append(slots, nil); return &slots[len(slots)-1] }
	_ = newSlot
	var hist [][]histEvent

	switch scenario {
	case 0, 1: // chain: one writer, readers, sync RPC handlers
		database, _ := db.NewInMemoryDB()
		chain := blockchain.NewChain(&blockchain.ChainConfig{ChainID: []byte{0, 0, 0, 7}, MaxBlockCache: cacheSize, MaxTransactionsLength: 15000, KeepEventsForHeights: -1})
		genesis := mkBlock(0, bytes.Repeat([]byte{0}, 32), 0, 0)
		chain.Init(genesis, database)
		known := []*blockchain.Block{genesis}
		if err := chain.AddBlock(database.NewBatch(), genesis, nil, 0, false); err != nil {
			t.Fatalf("infra: %v", err)
		}
		for i := 1; i <= nStable; i++ {
			b := mkBlock(uint32(i), known[i-1].Header.ID, 1, 2)
			if err := chain.AddBlock(database.NewBatch(), b, nil, 0, false); err != nil {
				t.Fatalf("infra: %v", err)
			}
			known = append(known, b)
		}
		stable := append([]*blockchain.Block(nil), known...)
		logger, _ := log.NewSilentLogger()
		syncer := lsync.NewSyncer(chain, validator.NewBlockSlot(genesis.Header.Timestamp, 10), nil, logger, nil, nil)
		hist = make([][]histEvent, nReaders+1)
		// writer
		spawn("writer", func() {
			tipStack := append([]*blockchain.Block(nil), known...)
			salt := 2
			for _, op := range writerOps {
				if op == 0 {
					salt++
					parent := tipStack[len(tipStack)-1]
					b := mkBlock(parent.Header.Height+1, parent.Header.ID, salt, 1+salt%3)
					call := simrt.Stamp()
					err := chain.AddBlock(database.NewBatch(), b, nil, 0, false)
					ret := simrt.Stamp()
					if err != nil {
						hist[0] = append(hist[0], histEvent{kind: "problem", extra: "AddBlock: " + err.Error()})
						return
					}
					tipStack = append(tipStack, b)
					hist[0] = append(hist[0], histEvent{client: 0, kind: "add", id: string(b.Header.ID), call: call, ret: ret})
				} else if len(tipStack) > len(stable) {
					call := simrt.Stamp()
					err := chain.RemoveBlock(database.NewBatch(), false)
					ret := simrt.Stamp()
					if err != nil {
						hist[0] = append(hist[0], histEvent{kind: "problem", extra: "RemoveBlock: " + err.Error()})
						return
					}
					tipStack = tipStack[:len(tipStack)-1]
					hist[0] = append(hist[0], histEvent{client: 0, kind: "remove", id: string(tipStack[len(tipStack)-1].Header.ID), call: call, ret: ret})
				}
			}
		})
		for r := 0; r < nReaders; r++ {
			r := r
			spawn(fmt.Sprintf("reader%d", r), func() {
				da := chain.DataAccess()
				note := func(format string, args ...interface{}) {
					hist[r+1] = append(hist[r+1], histEvent{kind: "problem", extra: fmt.Sprintf(format, args...)})
				}
				for _, op := range readerPlans[r] {
					switch op.kind {
					case 0, 1:
						call := simrt.Stamp()
						b := chain.LastBlock()
						ret := simrt.Stamp()
						if b == nil || b.Header == nil {
							note("LastBlock returned nil")
							continue
						}
						hist[r+1] = append(hist[r+1], histEvent{client: r + 1, kind: "last", id: string(b.Header.ID), call: call, ret: ret})
					case 2: // headers by ids of stable blocks (+ one unknown id): each existing exactly once
						var ids [][]byte
						for i := 0; i <= op.a%len(stable); i++ {
							ids = append(ids, stable[i].Header.ID)
						}
						ids = append(ids, bytes.Repeat([]byte{0xee}, 32))
						hs, err := da.GetBlockHeaders(ids)
						if err != nil {
							note("GetBlockHeaders: %v", err)
							continue
						}
						if msg := exactlyOnce(len(ids)-1, func(i int) string { return string(ids[i]) }, len(hs), func(i int) string {
							if hs[i] == nil {
								return "<nil>"
							}
							return string(hs[i].ID)
						}); msg != "" {
							note("GetBlockHeaders(%d stable ids + 1 unknown): %s", len(ids)-1, msg)
						}
					case 3:
						var heights []uint32
						for i := 0; i <= op.a%len(stable); i++ {
							heights = append(heights, uint32(i))
						}
						heights = append(heights, 9999)
						hs, err := da.GetBlockHeadersByHeights(heights)
						if err != nil {
							note("GetBlockHeadersByHeights: %v", err)
							continue
						}
						if msg := exactlyOnce(len(heights)-1, func(i int) string { return string(stable[i].Header.ID) }, len(hs), func(i int) string {
							if hs[i] == nil {
								return "<nil>"
							}
							return string(hs[i].ID)
						}); msg != "" {
							note("GetBlockHeadersByHeights(%v): %s", heights, msg)
						}
					case 4:
						var ids [][]byte
						var want []string
						for i := 1; i <= op.a%len(stable); i++ {
							for _, tx := range stable[i].Transactions {
								ids = append(ids, tx.ID)
								want = append(want, string(tx.ID))
							}
						}
						ids = append(ids, bytes.Repeat([]byte{0xdd}, 32))
						txs, err := da.GetTransactions(ids)
						if err != nil {
							note("GetTransactions: %v", err)
							continue
						}
						if msg := exactlyOnce(len(want), func(i int) string { return want[i] }, len(txs), func(i int) string {
							if txs[i] == nil {
								return "<nil>"
							}
							return string(txs[i].ID)
						}); msg != "" {
							note("GetTransactions(%d ids + 1 unknown): %s", len(want), msg)
						}
					case 5:
						to := uint32(op.a % len(stable))
						blocks, err := da.GetBlocksBetweenHeight(0, to)
						if err != nil {
							note("GetBlocksBetweenHeight(0,%d): %v", to, err)
							continue
						}
						if msg := exactlyOnce(int(to)+1, func(i int) string { return string(stable[i].Header.ID) }, len(blocks), func(i int) string {
							if blocks[i] == nil || blocks[i].Header == nil {
								return "<nil>"
							}
							return string(blocks[i].Header.ID)
						}); msg != "" {
							note("GetBlocksBetweenHeight(0,%d): %s", to, msg)
						}
					case 6: // sync handler: highest common block among stable ids
						req := &lsync.GetHighestCommonBlockRequest{}
						for i := 0; i <= op.a%len(stable); i++ {
							req.IDs = append(req.IDs, stable[i].Header.ID)
						}
						w := &nopWriter{}
						syncer.HandleRPCEndpointGetHighestCommonBlock()(w, &p2p.Request{Data: req.Encode(), PeerID: "peer"})
						resp := &lsync.GetHighestCommonBlockResponse{}
						if w.err != nil || resp.Decode(w.data) != nil {
							note("getHighestCommonBlock failed: %v", w.err)
							continue
						}
						if !bytes.Equal(resp.ID, stable[op.a%len(stable)].Header.ID) {
							note("getHighestCommonBlock returned %x, highest shared stable block is %x", resp.ID[:4], stable[op.a%len(stable)].Header.ID[:4])
						}
					default:
						req := &lsync.GetBlocksFromIDRequest{ID: stable[0].Header.ID}
						w := &nopWriter{}
						syncer.HandleRPCEndpointGetBlocksFromID()(w, &p2p.Request{Data: req.Encode(), PeerID: "peer"})
					}
				}
			})
		}
	case 2: // certificate pool
		pool := certificate.NewPool()
		hdrs := []*blockchain.BlockHeader{}
		for i := 1; i <= 6; i++ {
			hdrs = append(hdrs, mkBlock(uint32(i), bytes.Repeat([]byte{byte(i)}, 32), i, 0).Header)
		}
		sk := crypto.BLSKeyGen(bytes.Repeat([]byte{7}, 32)).PrivateKey
		commits := []*certificate.SingleCommit{}
		for i, h := range hdrs {
			commits = append(commits, certificate.NewSingleCommit(h, bytes.Repeat([]byte{byte(i)}, 20), []byte{0, 0, 0, 7}, sk))
		}
		for w := 0; w < 3; w++ {
			w := w
			spawn(fmt.Sprintf("pool%d", w), func() {
				for i := 0; i < nPoolOps; i++ {
					c := commits[(w*2+i)%len(commits)]
					switch poolOps[w*nPoolOps+i] {
					case 0, 1:
						pool.Add(c)
					case 2:
						sel := pool.Select(5, 3)
						pool.Upgrade(sel)
					case 3:
						pool.Cleanup(func(h uint32) bool { return h > 1 })
					case 4:
						_ = pool.Get(c.Height())
					default:
						_ = pool.Has(c)
						_ = pool.Size()
					}
				}
			})
		}
	case 4: // block sync: one goroutine per connected peer asks for its tip and records it for the peer selection
		database, _ := db.NewInMemoryDB()
		chain := blockchain.NewChain(&blockchain.ChainConfig{ChainID: []byte{0, 0, 0, 7}, MaxBlockCache: cacheSize, MaxTransactionsLength: 15000, KeepEventsForHeights: -1})
		genesis := mkBlock(0, bytes.Repeat([]byte{0}, 32), 0, 0)
		chain.Init(genesis, database)
		if err := chain.AddBlock(database.NewBatch(), genesis, nil, 0, false); err != nil {
			t.Fatalf("infra: %v", err)
		}
		nPeers := 2 + nReaders
		tr := &tipTransport{tips: map[p2p.PeerID][]byte{}}
		for i := 0; i < nPeers; i++ {
			pid := p2p.PeerID(fmt.Sprintf("peer%d", i))
			tr.peers = append(tr.peers, pid)
			tr.tips[pid] = mkBlock(uint32(5+i%2), bytes.Repeat([]byte{byte(i)}, 32), 10+i, 0).Encode()
		}
		logger, _ := log.NewSilentLogger()
		conn := p2p.NewConnection(logger, &p2p.Config{Version: "1.0", ChainID: []byte{0, 0, 0, 7}})
		conn.VerifAttach("me", tr)
		nop := func(ctx context.Context, b *blockchain.Block, publish, removeTemp bool) error { return nil }
		rev := func(ctx context.Context, b *blockchain.Block, saveTemp bool) error { return nil }
		syncer := lsync.NewSyncer(chain, validator.NewBlockSlot(genesis.Header.Timestamp, 10), conn, logger, nop, rev)
		incoming := mkBlock(7, bytes.Repeat([]byte{9}, 32), 99, 0)
		incoming.Header.TransactionRoot = rmt.CalculateRoot([][]byte{})
		incoming.Header.AssetRoot = blockchain.BlockAssets{}.GetRoot()
		incoming.Init()
		if err := incoming.Validate(); err != nil {
			t.Fatalf("infra: incoming block does not validate: %v", err)
		}
		// the finalized block is old (more than three rounds of slots ago)
		finalized := *genesis.Header
		finalized.Timestamp = genesis.Header.Timestamp - 5000
		syncer = lsync.NewSyncer(chain, validator.NewBlockSlot(finalized.Timestamp, 10), conn, logger, nop, rev)
		spawn("syncer", func() {
			// the generator of the incoming block is no current validator and the finalized block is old: block sync
			_ = syncer.Sync(&lsync.SyncContext{Ctx: context.Background(), Block: incoming, FinalizedBlockHeader: &finalized, PeerID: "peer0",
				CurrentValidators: []codec.Lisk32{bytes.Repeat([]byte{1}, 20), bytes.Repeat([]byte{2}, 20)}})
		})
	default: // event emitter with live, well-behaved subscribers + a staged store shared through prefix views
		ee := event.New()
		var chans []chan interface{}
		for s := 0; s < nSub; s++ {
			ch := ee.Subscribe("topic")
			chans = append(chans, ch)
			s := s
			spawn(fmt.Sprintf("sub%d", s), func() {
				for range ch {
				}
			})
		}
		var pubsDone atomic.Int32
		for p := 0; p < nPub; p++ {
			p := p
			spawn(fmt.Sprintf("pub%d", p), func() {
				defer pubsDone.Add(1)
				for i := 0; i < 3; i++ {
					ee.Publish("topic", i)
				}
				if p == 0 && !closeEarly {
					// unsubscribing closes the channel; the subscriber keeps receiving until then
					_ = ee.Unsubscribe("topic", chans[0])
				}
			})
		}
		spawn("closer", func() {
			if !closeEarly {
				for pubsDone.Load() < int32(nPub) {
					simrt.Yield("wait-publishers")
				}
			}
			ee.Close()
		})
		database, _ := db.NewInMemoryDB()
		// some keys are in the store already, so that deletions are staged markers and listings merge both sources
		for v := 0; v < 2; v++ {
			for i := 0; i < 6; i += 2 {
				database.Set([]byte{10, byte(v), byte(i)}, []byte{0xee, byte(i)})
			}
		}
		root := diffdb.New(database, []byte{10})
		limits := []int{-1, 1, 3}
		lim := [2]int{limits[simkit.Int(t, "viewlimit0", 0, 2)], limits[simkit.Int(t, "viewlimit1", 0, 2)]}
		for v := 0; v < 2; v++ {
			v := v
			view := root.WithPrefix([]byte{byte(v)})
			spawn(fmt.Sprintf("view%d", v), func() {
				for i := 0; i < 4; i++ {
					view.Set([]byte{byte(i)}, []byte{byte(v), byte(i)})
					_, _ = view.Get([]byte{byte(i)})
					_ = view.Range([]byte{0}, []byte{9}, lim[v], false)
					view.Del([]byte{byte((i * 2) % 6)})
					_ = view.Iterate([]byte{}, lim[v], i%2 == 1)
					if i == 2 {
						id := view.Snapshot()
						_ = view.RestoreSnapshot(id)
					}
				}
			})
		}
	}

	res := k.Run(20000, nil, func() bool { return finished.Load() == total })
	if k.InfraErr != "" {
		t.Fatalf("infra: %s", k.InfraErr)
	}
	simkit.AddSteps(int64(res.Steps))
	fail := func(oracle, witness, format string, args ...interface{}) {
		simkit.Sample(map[string]interface{}{"scenario": scenario, "steps": res.Steps})
		simkit.Fail(t, prop, oracle, witness, format+" | scenario=%d", append(args, scenario)...)
	}
	if len(k.Panics) > 0 {
		fail("panic", "task", "a goroutine panicked: %s", k.Panics[0])
	}
	if finished.Load() != total {
		native := k.NativeBlockedStacks()
		if len(native) > 2500 {
			native = native[:2500]
		}
		wit := "stuck"
		joined := strings.Join(res.StuckInfo, " ; ")
		switch {
		case strings.Contains(joined, "RWMutex") && strings.Contains(joined, "RLock"):
			wit = "rwmutex-reentrant-read"
		case strings.Contains(native, "event.(*EventEmitter)"):
			wit = "emitter"
		}
		fail("deadlock", wit, "%d of %d tasks never finished (stuck=%v budget=%v): %s %s", total-finished.Load(), total, res.Stuck, res.Budget, joined, native)
	}
	// races reported during this run
	if n := runtime.RaceErrors() - racesBefore; n > 0 {
		rep := newRaceReports()
		wit, full := raceWitness(rep)
		if len(full) > 6000 {
			full = full[:6000]
		}
		fail("race", wit, "the race detector reported %d data race(s) on the schedule of this seed:\n%s", n, full)
	}
	// task-local problems and the LastBlock history
	for _, h := range hist {
		for _, e := range h {
			if e.kind == "problem" {
				w := "bulk-lookup"
				if strings.Contains(e.extra, "LastBlock") || strings.Contains(e.extra, "Block:") {
					w = "chain-op"
				}
				fail("result", w, "%s", e.extra)
			}
		}
	}
	if scenario <= 1 {
		checkLinearizable(t, fail, hist)
	}
	simkit.DetLog("sched=%x steps=%d scenario=%d", k.SchedHash, res.Steps, scenario)
	simkit.Distinct(k.SchedHash, scenario)
	simkit.Sample(map[string]interface{}{"scenario": scenario, "steps": res.Steps, "tasks": total})
	_ = problems
}

// exactlyOnce compares the multiset of returned keys with the expected set.
func exactlyOnce(nWant int, want func(int) string, nGot int, got func(int) string) string {
	cnt := map[string]int{}
	for i := 0; i < nGot; i++ {
		cnt[got(i)]++
	}
	for i := 0; i < nWant; i++ {
		if cnt[want(i)] != 1 {
			return fmt.Sprintf("item %d of %d returned %d times (result has %d entries)", i, nWant, cnt[want(i)], nGot)
		}
	}
	if nGot != nWant {
		return fmt.Sprintf("%d entries returned for %d existing items", nGot, nWant)
	}
	return ""
}

// ---- linearizability of LastBlock against the writer's tip stack (porcupine) -----------------------------------

type lbInput struct {
	kind string
	id   string
}

func checkLinearizable(t *rapid.T, fail func(string, string, string, ...interface{}), hist [][]histEvent) {
	var ops []porcupine.Operation
	initial := ""
	for c, h := range hist {
		for _, e := range h {
			switch e.kind {
			case "add", "remove":
				ops = append(ops, porcupine.Operation{ClientId: c, Input: lbInput{e.kind, e.id}, Call: int64(e.call), Output: "", Return: int64(e.ret)})
			case "last":
				ops = append(ops, porcupine.Operation{ClientId: c, Input: lbInput{"last", ""}, Call: int64(e.call), Output: e.id, Return: int64(e.ret)})
			}
		}
	}
	if len(ops) == 0 || len(ops) > 60 {
		return
	}
	// the tip before the run is unknown to the model: state "" accepts the first read as defining it
	model := porcupine.Model{
		Init: func() interface{} { return initial },
		Step: func(state, input, output interface{}) (bool, interface{}) {
			in := input.(lbInput)
			st := state.(string)
			switch in.kind {
			case "add", "remove":
				return true, in.id // after add: the new block; after remove: the new tip (recorded by the writer)
			default:
				out := output.(string)
				if st == "" {
					return true, out
				}
				return out == st, st
			}
		},
		Equal: func(a, b interface{}) bool { return a.(string) == b.(string) },
	}
	res := porcupine.CheckOperationsTimeout(model, ops, 20*time.Second)
	if res == porcupine.Illegal {
		fail("linearizability", "lastblock", "LastBlock results are not linearizable with the writer's add/remove operations: %d operations", len(ops))
	}
	if res == porcupine.Unknown {
		simkit.Probe("porcupine_timeout")
	}
}

// tipTransport answers getLastBlock with a fixed tip per peer and nothing else.
type tipTransport struct {
	peers []p2p.PeerID
	tips  map[p2p.PeerID][]byte
}

func (t *tipTransport) Publish(from p2p.PeerID, topic string, data []byte) error { return nil }
func (t *tipTransport) Request(ctx context.Context, from, to p2p.PeerID, procedure string, data []byte) p2p.Response {
	if procedure == lsync.RPCEndpointGetLastBlock {
		return p2p.VerifResponse(to, t.tips[to], nil)
	}
	return p2p.VerifResponse(to, nil, errors.New("not served"))
}
func (t *tipTransport) Peers(of p2p.PeerID) p2p.PeerIDs        { return t.peers }
func (t *tipTransport) Ban(by, whom p2p.PeerID)                {}
func (t *tipTransport) Penalty(by, whom p2p.PeerID, score int) {}
