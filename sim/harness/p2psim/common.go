// Package p2psim: schedsim harnesses for the p2p request/response layer (C17) and penalties/bans (C18): the real
// MessageProtocol, rateLimit, connectionGater and Peer over the simulated libp2p host.
package p2psim

import (
	"context"
	"encoding/binary"
	"fmt"
	"time"

	"github.com/libp2p/go-libp2p/core/network"
	"github.com/libp2p/go-libp2p/core/peer"
	"pgregory.net/rapid"

	"github.com/LiskHQ/lisk-engine/pkg/log"
	"github.com/LiskHQ/lisk-engine/pkg/p2p"

	"verif/sim/simhost"
	"verif/sim/simkit"
	"verif/sim/simrt"
	"verif/sim/simsync"
	"verif/sim/simtime"
	"verif/sim/simuuid"
)

type rapidChooser struct{ t *rapid.T }

func (c rapidChooser) Intn(label string, n int) int {
	if n <= 1 {
		return 0
	}
	return rapid.IntRange(0, n-1).Draw(c.t, label)
}

type node struct {
	name string
	host *simhost.Host
	peer *p2p.Peer
	mp   *p2p.MessageProtocol
}

var chainID = []byte{0, 0, 0, 7}

// msgID extracts field 1 (string id) of an encoded request/response envelope.
func msgID(b []byte) string {
	if len(b) < 2 || b[0] != 0x0a {
		return ""
	}
	n := int(b[1])
	if n >= 0x80 || len(b) < 2+n {
		return ""
	}
	return string(b[2 : 2+n])
}

// echoHandler: the payload carries a unique call id and the handler latency; the reply is a function of the payload.
func expectedReply(payload []byte) []byte {
	return append([]byte("reply:"), payload...)
}

func makePayload(call int, latencyMs int) []byte {
	b := make([]byte, 12)
	binary.BigEndian.PutUint32(b[0:], uint32(call))
	binary.BigEndian.PutUint32(b[4:], uint32(latencyMs))
	copy(b[8:], "call")
	return b
}

func newNode(ctx context.Context, wg *simsync.WaitGroup, net *simhost.Net, name, addr string, timeout time.Duration, expiry, interval time.Duration, blacklist []string, onHandle func(node string, req *p2p.Request)) (*node, error) {
	logger, _ := log.NewSilentLogger()
	h := net.NewHost(name, addr)
	pr, err := p2p.VerifNewPeer(ctx, wg, logger, h, expiry, interval, blacklist)
	if err != nil {
		return nil, err
	}
	h.SetGater(pr.VerifGater())
	mp := p2p.VerifNewMessageProtocol(chainID, "1.0")
	n := &node{name: name, host: h, peer: pr, mp: mp}
	if err := mp.RegisterRPCHandler("echo", func(w p2p.ResponseWriter, req *p2p.Request) {
		if onHandle != nil {
			onHandle(name, req)
		}
		if len(req.Data) >= 8 {
			lat := binary.BigEndian.Uint32(req.Data[4:8])
			if lat > 0 {
				simtime.Sleep(time.Duration(lat) * time.Millisecond)
			}
		}
		w.Write(expectedReply(req.Data))
	}); err != nil {
		return nil, err
	}
	mp.VerifSetTimeout(timeout)
	mp.VerifStart(ctx, logger, pr)
	return n, nil
}

func drawScript(t *rapid.T, n int, timeout time.Duration, lossy bool) []simhost.Fault {
	script := make([]simhost.Fault, n)
	for i := range script {
		f := simhost.Fault{}
		switch simkit.Int(t, "latkind", 0, 5) {
		case 0:
			f.Latency = 0
		case 1, 2, 3:
			f.Latency = time.Duration(simkit.Int(t, "latms", 1, 80)) * time.Millisecond
		case 4:
			// around half the timeout: request + reply together straddle the deadline
			f.Latency = timeout/2 + time.Duration(simkit.Int(t, "latedge", -20, 20))*time.Millisecond
		default:
			f.Latency = timeout + time.Duration(simkit.Int(t, "latover", 0, 500))*time.Millisecond
		}
		if lossy {
			f.Drop = simkit.Chance(t, "drop", 1, 10)
			f.Dup = simkit.Chance(t, "dup", 1, 8)
			f.DupGap = time.Duration(simkit.Int(t, "dupgap", 0, 4000)) * time.Millisecond
		}
		script[i] = f
	}
	return script
}

func resetRun(t *rapid.T) *simrt.Kernel {
	simrt.ResetClock()
	simuuid.Reset()
	k := simrt.NewKernel(rapidChooser{t})
	simrt.YieldLocks = true
	k.TimerBias = 0
	return k
}

func pid(p peer.ID) string { return fmt.Sprintf("%s", p.String()[len(p.String())-6:]) }

type networkStream = network.Stream
