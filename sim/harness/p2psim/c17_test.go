package p2psim

import (
	"bytes"
	"context"
	"errors"
	"fmt"
	"os"
	"sort"
	"strings"
	"sync"
	"testing"
	"time"

	"github.com/libp2p/go-libp2p/core/peer"
	"github.com/libp2p/go-libp2p/core/protocol"
	"pgregory.net/rapid"

	"github.com/LiskHQ/lisk-engine/pkg/p2p"

	"verif/sim/simhost"
	"verif/sim/simkit"
	"verif/sim/simrt"
	"verif/sim/simsync"
	"verif/sim/simtime"
)

func TestMain(m *testing.M) {
	p := os.Getenv("VERIF_PROP")
	if p == "" {
		p = "C17"
	}
	simkit.Init(p)
	code := m.Run()
	simkit.Flush()
	os.Exit(code)
}

func TestC17(t *testing.T) {
	rapid.Check(t, func(t *rapid.T) {
		simkit.AddRun()
		defer simkit.Watch(120*time.Second, "C17 run")()
		simkit.Guard(func() { runC17(t) })
	})
}

type callPlan struct {
	from, to  int
	latencyMs int
	cancelMs  int // -1: never
	startMs   int // the call is made this long after the start of the run (requests carry whole-second timestamps)
	// cancelOnReply: the caller gives up at the very instant the (first) response reaches its node - the response
	// and the cancellation race inside the requester
	cancelOnReply bool
}

type attempt struct {
	id     string
	sentAt time.Duration
	respAt []time.Duration // instants at which a response with this id was delivered to the requester
}

type callRec struct {
	Call       int      `json:"call"`
	From       int      `json:"from"`
	To         int      `json:"to"`
	HandlerMs  int      `json:"handler_ms"`
	CancelMs   int      `json:"cancel_ms"`
	Outcome    string   `json:"outcome"`
	InvokedAt  string   `json:"invoked_at"`
	ReturnAt   string   `json:"returned_at"`
	Attempts   int      `json:"attempts"`
	AttemptLog []string `json:"attempt_log,omitempty"`
	returned   bool
	invoked    time.Duration
	done       time.Duration
	err        error
	data       []byte
	attempts   []*attempt
	cancel     func()
	onReply    bool
	cancelled  time.Duration // instant of the cancellation at reply delivery, -1 if none
}

func runC17(t *rapid.T) {
	const prop = "C17"
	timeout := 3 * time.Second
	nNodes := simkit.Int(t, "nnodes", 2, 3)
	nCalls := simkit.Int(t, "ncalls", 1, 8)
	lossy := simkit.Bool(t, "lossy")
	plans := make([]callPlan, nCalls)
	for i := range plans {
		p := callPlan{from: simkit.Int(t, "from", 0, nNodes-1), cancelMs: -1}
		p.to = (p.from + 1 + simkit.Int(t, "to", 0, nNodes-2)) % nNodes
		switch simkit.Int(t, "hlat", 0, 4) {
		case 0:
			p.latencyMs = 0
		case 1, 2:
			p.latencyMs = simkit.Int(t, "hms", 1, 500)
		case 3:
			p.latencyMs = int(timeout/time.Millisecond) + simkit.Int(t, "hedge", -60, 60)
		default:
			p.latencyMs = simkit.Int(t, "hlong", 3000, 4500)
		}
		if simkit.Bool(t, "latestart") {
			p.startMs = simkit.Int(t, "startms", 1, 2500)
		}
		if simkit.Chance(t, "cancel", 1, 5) {
			p.cancelMs = simkit.Int(t, "cancelms", 0, 7000)
		} else if simkit.Chance(t, "cancelonreply", 1, 6) {
			p.cancelOnReply = true
		}
		plans[i] = p
	}
	script := drawScript(t, 48, timeout, lossy)

	stall := simkit.Int(t, "stall", 0, 3) // 0-1: none; 2: requester threads stalled; 3: handler threads stalled
	k := resetRun(t)
	defer k.Shutdown()
	switch stall {
	case 2:
		k.Starve = func(tk *simrt.Task) bool { return strings.HasPrefix(tk.Name, "call") }
		simkit.Fault("stalled_requesters")
	case 3:
		k.Starve = func(tk *simrt.Task) bool { return strings.HasSuffix(tk.Name, ".handler") }
		simkit.Fault("stalled_handlers")
	}
	ctx, cancelAll := context.WithCancel(context.Background())
	defer cancelAll()
	var wg simsync.WaitGroup
	net := simhost.NewNet(script)
	nodes := make([]*node, nNodes)
	for i := range nodes {
		n, err := newNode(ctx, &wg, net, fmt.Sprintf("n%d", i), fmt.Sprintf("/ip4/10.0.0.%d/tcp/4001", i+1), timeout, 24*time.Hour, 10*time.Second, nil, nil)
		if err != nil {
			t.Fatalf("infra: %v", err)
		}
		nodes[i] = n
	}
	idx := map[peer.ID]int{}
	for i, n := range nodes {
		idx[n.host.ID()] = i
	}
	var mu sync.Mutex
	calls := make([]*callRec, nCalls)
	byPayload := map[string]*callRec{}
	byReqID := map[string]*attempt{}
	reqProto := protocol.ID(fmt.Sprintf("/lisk/message/req/%x/1.0", chainID))
	// observe the wire: requests leaving a requester (attempt start is the delivery instant minus latency; we record the
	// delivery at the responder as a conservative 'sent no later than') and responses reaching the requester
	net.OnSend = func(from, to peer.ID, proto protocol.ID, data []byte) {
		if proto != reqProto {
			return
		}
		mu.Lock()
		defer mu.Unlock()
		id := msgID(data)
		for pl, c := range byPayload {
			if bytes.Contains(data, []byte(pl)) {
				a := &attempt{id: id, sentAt: simrt.C.Elapsed()}
				byReqID[id] = a
				c.attempts = append(c.attempts, a)
			}
		}
	}
	net.OnDeliver = func(from, to peer.ID, proto protocol.ID, data []byte) []byte {
		if proto == reqProto {
			return data
		}
		mu.Lock()
		defer mu.Unlock()
		if a, ok := byReqID[msgID(data)]; ok {
			a.respAt = append(a.respAt, simrt.C.Elapsed())
			for _, c := range calls {
				if c == nil || !c.onReply || c.cancel == nil || c.cancelled >= 0 {
					continue
				}
				for _, ca := range c.attempts {
					if ca == a {
						c.cancelled = simrt.C.Elapsed()
						simkit.Fault("cancel_at_reply_delivery")
						c.cancel()
					}
				}
			}
		}
		return data
	}
	fail := func(oracle, witness, format string, args ...interface{}) {
		mu.Lock()
		var recs []callRec
		for _, c := range calls {
			if c != nil {
				c.Attempts = len(c.attempts)
				c.AttemptLog = nil
				for _, a := range c.attempts {
					c.AttemptLog = append(c.AttemptLog, fmt.Sprintf("req %s sent at %v; responses reached requester at %v", a.id[len(a.id)-4:], a.sentAt, a.respAt))
				}
				recs = append(recs, *c)
			}
		}
		mu.Unlock()
		simkit.Sample(map[string]interface{}{"calls": recs, "lossy": lossy})
		simkit.Fail(t, prop, oracle, witness, format+" | lossy=%v calls=%+v", append(args, lossy, recs)...)
	}
	finished := 0
	for i, p := range plans {
		i, p := i, p
		payload := makePayload(i, p.latencyMs)
		c := &callRec{Call: i, From: p.from, To: p.to, HandlerMs: p.latencyMs, CancelMs: p.cancelMs, onReply: p.cancelOnReply, cancelled: -1}
		calls[i] = c
		byPayload[string(payload)] = c
		k.Go(fmt.Sprintf("call%d", i), nodes[p.from].name, func() {
			cctx, cancel := context.WithCancel(ctx)
			defer cancel()
			if p.startMs > 0 {
				simtime.Sleep(time.Duration(p.startMs) * time.Millisecond)
			}
			if p.cancelMs >= 0 {
				simrt.C.AfterFunc(time.Duration(p.cancelMs)*time.Millisecond, 0, cancel)
			}
			mu.Lock()
			c.cancel = cancel
			c.invoked = simrt.C.Elapsed()
			c.InvokedAt = c.invoked.String()
			mu.Unlock()
			resp := nodes[p.from].mp.RequestFrom(cctx, nodes[p.to].host.ID(), "echo", payload)
			mu.Lock()
			c.returned = true
			c.done = simrt.C.Elapsed()
			c.ReturnAt = c.done.String()
			c.err = resp.Error()
			c.data = resp.Data()
			if c.err != nil {
				c.Outcome = "error: " + c.err.Error()
			} else {
				c.Outcome = "ok"
			}
			finished++
			mu.Unlock()
		})
	}
	// run until all calls returned and the network is drained
	allReturned := func() bool {
		mu.Lock()
		defer mu.Unlock()
		return finished == nCalls
	}
	endAt := time.Duration(-1)
	res := k.Run(4000+1500*nCalls, nil, func() bool {
		if allReturned() && endAt < 0 {
			endAt = simrt.C.Elapsed() + 9*time.Second // let late and duplicate responses arrive
		}
		return endAt >= 0 && simrt.C.Elapsed() >= endAt
	})
	if k.InfraErr != "" {
		t.Fatalf("infra: %s", k.InfraErr)
	}
	simkit.AddSteps(int64(res.Steps))
	simkit.AddSimSeconds(simrt.C.Elapsed().Seconds())
	simkit.FaultN("msg_dropped", net.Stats.Dropped)
	simkit.FaultN("msg_duplicated", net.Stats.Duplicated)
	simkit.Count("messages_sent", int64(net.Stats.Sent))
	if len(k.Panics) > 0 {
		fail("panic", "task", "a goroutine of the request/response layer panicked: %s", k.Panics[0])
	}
	if !allReturned() {
		info := res.StuckInfo
		if len(info) == 0 {
			info = []string{"step budget exhausted"}
		}
		native := ""
		if res.Stuck {
			native = k.NativeBlockedStacks()
			if len(native) > 1500 {
				native = native[:1500]
			}
		}
		wit := "stuck"
		if strings.Contains(strings.Join(info, " "), "Mutex") {
			wit = "resMu"
		}
		fail("deadlock", wit, "request/response layer blocked: %d of %d calls never returned: %s %s", nCalls-finished, nCalls, strings.Join(info, " ; "), native)
	}
	mu.Lock()
	maxDur := time.Duration(p2p.VerifMaxRetries+1)*timeout + 50*time.Millisecond
	for _, c := range calls {
		// correlation
		if c.err == nil && !bytes.Equal(c.data, expectedReply(makePayload(c.Call, c.HandlerMs))) {
			mu.Unlock()
			fail("correlation", "data", "call %d got a response that was produced for another request: %x", c.Call, c.data)
		}
		// bounded duration
		if c.done-c.invoked > maxDur {
			mu.Unlock()
			fail("duration", "budget", "call %d took %v of simulated time, budget is (retries+1) x timeout = %v", c.Call, c.done-c.invoked, maxDur)
		}
		// in-time replies are not lost: a response to attempt a that reached the requester well inside that attempt's
		// window (the attempt cannot have started before the call; it ends when the next attempt's request or the
		// return happens) while the call was not cancelled must end the call successfully
		cancelAt := time.Duration(1 << 62)
		if c.CancelMs >= 0 {
			cancelAt = c.invoked + time.Duration(c.CancelMs)*time.Millisecond
		}
		if c.cancelled >= 0 {
			cancelAt = c.cancelled
		}
		for ai, a := range c.attempts {
			if len(a.respAt) == 0 {
				continue
			}
			first := a.respAt[0]
			// the attempt was still waiting at 'first' iff neither a retry had been sent nor the call had returned
			lastAttempt := ai == len(c.attempts)-1
			timedOut := !lastAttempt || errors.Is(c.err, errTimeoutSentinel) || (c.err != nil && c.err.Error() == "timeout")
			if !timedOut {
				continue
			}
			if first >= cancelAt {
				continue
			}
			// the attempt waits from its send until send+timeout; a response that reached the requester strictly inside
			// that window (1 ms margin for events at the same instant) must have been taken
			if first >= a.sentAt && first <= a.sentAt+timeout-time.Millisecond && first <= c.done {
				mu.Unlock()
				fail("lost-reply", "in-time", "call %d attempt %d (sent at %v): the response reached the requester at %v, before the attempt's deadline %v, but the attempt timed out", c.Call, ai, a.sentAt, first, a.sentAt+timeout)
			}
		}
	}
	pend := 0
	for _, n := range nodes {
		pend += n.mp.VerifPending()
	}
	mu.Unlock()
	if pend != 0 {
		fail("leak", "pending", "%d pending response entries left after all calls returned and the network drained", pend)
	}
	var outs []string
	for _, c := range calls {
		outs = append(outs, c.Outcome)
	}
	sort.Strings(outs)
	simkit.DetLog("sched=%x steps=%d simtime=%v outcomes=%v", k.SchedHash, res.Steps, simrt.C.Elapsed(), outs)
	simkit.Distinct(k.SchedHash)
	var recs []callRec
	for _, c := range calls {
		c.Attempts = len(c.attempts)
		recs = append(recs, *c)
	}
	simkit.Sample(map[string]interface{}{"calls": recs, "lossy": lossy, "steps": res.Steps})
	cancelAll()
}

var errTimeoutSentinel = errors.New("timeout")
