package p2psim

import (
	"context"
	"fmt"
	"net"
	"testing"
	"time"

	"github.com/libp2p/go-libp2p/core/protocol"
	ma "github.com/multiformats/go-multiaddr"
	"pgregory.net/rapid"

	"github.com/LiskHQ/lisk-engine/pkg/log"
	"github.com/LiskHQ/lisk-engine/pkg/p2p"

	"verif/sim/simhost"
	"verif/sim/simkit"
	"verif/sim/simrt"
	"verif/sim/simsync"
	"verif/sim/simtime"
)

func TestC18(t *testing.T) {
	rapid.Check(t, func(t *rapid.T) {
		simkit.AddRun()
		defer simkit.Watch(120*time.Second, "C18 run")()
		simkit.Guard(func() { runC18(t) })
	})
}

type c18Event struct {
	Kind   string `json:"kind"`
	Peer   int    `json:"peer,omitempty"`
	Amount int    `json:"amount,omitempty"`
	N      int    `json:"n,omitempty"`
	Secs   int    `json:"secs,omitempty"`
	At     string `json:"at,omitempty"`
	Result string `json:"result,omitempty"`
}

// reference ban model (DESIGN A.7), per IP
type banModel struct {
	score       map[string]int
	bannedAt    map[string]time.Duration // instant of the (latest) ban
	blacklisted map[string]bool
	penalised   map[string]bool
}

func runC18(t *rapid.T) {
	const prop = "C18"
	expirySecs := []int{30, 120, 3600}[simkit.Int(t, "expiry", 0, 2)]
	expiry := time.Duration(expirySecs) * time.Second
	interval := 10 * time.Second
	rateLimit := simkit.Int(t, "ratelimit", 2, 6)
	ratePenalty := []int{10, 30, 100}[simkit.Int(t, "ratepenalty", 0, 2)]
	addrs := []string{"/ip4/10.0.0.2/tcp/4001", "/ip4/10.0.0.2/tcp/4002", "/ip6/fd00::3/tcp/4001", "/ip4/10.0.0.9/tcp/4001"}
	ips := []string{"10.0.0.2", "10.0.0.2", "fd00::3", "10.0.0.9"}
	var blacklist []string
	blIdx := -1
	if simkit.Chance(t, "blacklist", 1, 3) {
		// the configured entry may be written in any notation of the address (the gates see the canonical form)
		if simkit.Bool(t, "blacklistv6") {
			blIdx = 2
			blacklist = []string{[]string{"fd00::3", "fd00:0000:0000:0000:0000:0000:0000:0003", "FD00::3", "fd00:0:0:0:0:0:0:3"}[simkit.Int(t, "blnotation", 0, 3)]}
		} else {
			blIdx = 3
			blacklist = []string{[]string{"10.0.0.9", "::ffff:10.0.0.9", "10.0.0.9"}[simkit.Int(t, "blnotation", 0, 2)]}
		}
	}
	nEvents := simkit.Int(t, "nevents", 1, 14)
	plan := make([]c18Event, nEvents)
	for i := range plan {
		e := c18Event{Peer: simkit.Int(t, "peer", 0, 3)}
		switch simkit.Int(t, "kind", 0, 9) {
		case 0, 1:
			e.Kind = "penalty"
			e.Amount = []int{10, 40, 60, 99, 100}[simkit.Int(t, "amount", 0, 4)]
		case 2:
			e.Kind = "malformed"
		case 3:
			e.Kind = "unknownproc"
		case 4, 5:
			e.Kind = "traffic"
			e.N = simkit.Int(t, "n", 1, rateLimit+3)
		case 6, 7:
			e.Kind = "advance"
			e.Secs = []int{1, 5, 9, 11, 29, 31, 119, 131, 3599, 3700, 86400}[simkit.Int(t, "secs", 0, 10)]
		default:
			e.Kind = "dial"
			e.N = simkit.Int(t, "dir", 0, 1) // 0 outbound (n0 -> peer), 1 inbound
		}
		plan[i] = e
	}

	k := resetRun(t)
	defer k.Shutdown()
	ctx, cancelAll := context.WithCancel(context.Background())
	defer cancelAll()
	var wg simsync.WaitGroup
	net_ := simhost.NewNet([]simhost.Fault{{Latency: 2 * time.Millisecond}})
	logger, _ := log.NewSilentLogger()
	// node under test
	h0 := net_.NewHost("n0", "/ip4/10.0.0.1/tcp/4001")
	p0, err := p2p.VerifNewPeer(ctx, &wg, logger, h0, expiry, interval, blacklist)
	if err != nil {
		t.Fatalf("infra: %v", err)
	}
	h0.SetGater(p0.VerifGater())
	mp0 := p2p.VerifNewMessageProtocol(chainID, "1.0")
	if err := mp0.RegisterRPCHandler("echo", func(w p2p.ResponseWriter, req *p2p.Request) { w.Write(expectedReply(req.Data)) }, p2p.WithRPCMessageCounter(rateLimit, ratePenalty)); err != nil {
		t.Fatalf("infra: %v", err)
	}
	mp0.VerifStart(ctx, logger, p0)
	k.Go("ratelimiter", "n0", func() { mp0.VerifRateLimiterHandler(ctx, &wg) })
	peers := make([]*simhost.Host, 4)
	for i := range peers {
		peers[i] = net_.NewHost(fmt.Sprintf("p%d", i+1), addrs[i])
		// remote peers accept the responses n0 sends back
		peers[i].SetStreamHandler(protocol.ID(fmt.Sprintf("/lisk/message/res/%x/1.0", chainID)), func(s networkStream) {})
	}
	reqProto := protocol.ID(fmt.Sprintf("/lisk/message/req/%x/1.0", chainID))

	md := &banModel{score: map[string]int{}, bannedAt: map[string]time.Duration{}, blacklisted: map[string]bool{}, penalised: map[string]bool{}}
	if blIdx >= 0 {
		md.blacklisted[ips[blIdx]] = true
	}
	var log_ []c18Event
	var failure func()
	fail := func(oracle, witness, format string, args ...interface{}) {
		msg := fmt.Sprintf(format, args...)
		cfg := fmt.Sprintf("expiry=%ds interval=10s rateLimit=%d ratePenalty=%d blacklist=%v", expirySecs, rateLimit, ratePenalty, blacklist)
		evs := append([]c18Event(nil), log_...)
		failure = func() {
			simkit.Sample(map[string]interface{}{"config": cfg, "events": evs})
			simkit.Fail(t, prop, oracle, witness, "%s | %s events=%+v", msg, cfg, evs)
		}
	}
	rateCount := map[int]int{}
	// The rate limiter empties its counters when its ticker fires and then re-arms the ticker one interval after that
	// instant (ratelimit.go resets the ticker in the loop), so its windows are: first tick one interval after the start;
	// every further tick one interval after the previous one was handled - which is later than planned when the clock
	// jumped. The model follows exactly that; a message within 30 ms of a tick may be counted on either side of it.
	nextTick := interval
	lastTick := time.Duration(-1 << 40)
	catchUp := func(now time.Duration, jumped bool) {
		for nextTick <= now {
			handled := nextTick
			if jumped {
				handled, jumped = now, false
			}
			for kk := range rateCount {
				rateCount[kk] = 0
			}
			lastTick = handled
			nextTick = handled + interval
		}
	}
	nearTick := func(now time.Duration) bool {
		d1, d2 := now-lastTick, nextTick-now
		return (d1 >= 0 && d1 < 30*time.Millisecond) || (d2 >= 0 && d2 < 30*time.Millisecond)
	}
	uncertain := map[string]bool{}
	modelPenalty := func(ip string, amount int, now time.Duration) {
		if at, banned := md.bannedAt[ip]; banned && now >= at+expiry-time.Second {
			// between the end of the ban and the sweep that forgets it the implementation may hold either the old
			// score or none: the model cannot tell which, so it stops judging this IP
			uncertain[ip] = true
		}
		md.penalised[ip] = true
		md.score[ip] += amount
		if md.score[ip] >= 100 {
			md.bannedAt[ip] = now
		}
	}
	modelExpire := func(now time.Duration) {
		// the ban ends expiry after the ban; the entry (and the score) is forgotten at the next sweep
		for ip, at := range md.bannedAt {
			if now > at+expiry+interval+2*time.Second {
				delete(md.bannedAt, ip)
				md.score[ip] = 0
			}
		}
	}
	send := func(from *simhost.Host, data []byte) {
		s, err := from.NewStream(ctx, h0.ID(), reqProto)
		if err != nil {
			return
		}
		_, _ = s.Write(data)
		_ = s.Close()
	}
	finished := false
	k.Go("driver", "harness", func() {
		defer func() { finished = true }()
		// initial connections (may be refused for a blacklisted peer)
		for i := range peers {
			_ = peers[i].Dial(h0.ID())
		}
		for _, e := range plan {
			if failure != nil {
				return
			}
			now := simrt.C.Elapsed()
			modelExpire(now)
			e.At = now.String()
			ip := ips[e.Peer]
			pr := peers[e.Peer]
			full, _ := ma.NewMultiaddr(addrs[e.Peer] + "/p2p/" + pr.ID().String())
			switch e.Kind {
			case "penalty":
				_ = p0.VerifAddPenalty(full, e.Amount)
				modelPenalty(ip, e.Amount, now)
				simtime.Sleep(20 * time.Millisecond)
				if !uncertain[ip] && md.score[ip] >= 100 && h0.Connected(pr.ID()) {
					log_ = append(log_, e)
					fail("disconnect", "penalty", "peer %d (%s) reached score %d but is still connected", e.Peer, ip, md.score[ip])
					return
				}
			case "malformed", "unknownproc":
				if !pr.Connected(h0.ID()) {
					if err := pr.Dial(h0.ID()); err != nil {
						e.Result = "not connected"
						log_ = append(log_, e)
						continue
					}
				}
				if e.Kind == "malformed" {
					send(pr, []byte{0xff, 0xff, 0x01})
				} else {
					req := &p2p.Request{ID: "x", Procedure: "nosuchprocedure", Data: []byte{1}}
					send(pr, req.Encode())
				}
				simtime.Sleep(50 * time.Millisecond)
				modelPenalty(ip, 100, now)
				if h0.Connected(pr.ID()) {
					log_ = append(log_, e)
					fail("disconnect", e.Kind, "peer %d (%s) sent a %s request and was banned but is still connected", e.Peer, ip, e.Kind)
					return
				}
			case "traffic":
				if !pr.Connected(h0.ID()) {
					if err := pr.Dial(h0.ID()); err != nil {
						e.Result = "not connected"
						log_ = append(log_, e)
						continue
					}
				}
				for j := 0; j < e.N; j++ {
					catchUp(simrt.C.Elapsed(), false)
					if nearTick(simrt.C.Elapsed()) {
						uncertain[ip] = true
						simkit.Probe("c18_message_at_a_counter_reset_no_score_verdict")
					}
					req := &p2p.Request{ID: fmt.Sprintf("t%d", j), Procedure: "echo", Data: []byte{byte(j)}}
					send(pr, req.Encode())
					simtime.Sleep(5 * time.Millisecond)
					rateCount[e.Peer]++
					if rateCount[e.Peer] > rateLimit {
						modelPenalty(ip, ratePenalty, simrt.C.Elapsed())
						rateCount[e.Peer] = 0
					}
					if !pr.Connected(h0.ID()) {
						break
					}
				}
				simtime.Sleep(20 * time.Millisecond)
			case "advance":
				if e.Secs > 200 {
					// a clock jump (suspend/resume, NTP step): the periodic sweeps in between do not happen one by one
					simrt.C.Jump(time.Duration(e.Secs) * time.Second)
					catchUp(simrt.C.Elapsed(), true)
					simkit.Fault("clock_jump")
					simtime.Sleep(time.Second)
				} else {
					simtime.Sleep(time.Duration(e.Secs) * time.Second)
				}
			case "dial":
				var err error
				if e.N == 0 {
					_ = h0.Network().ClosePeer(pr.ID())
					err = h0.Dial(pr.ID())
				} else {
					_ = h0.Network().ClosePeer(pr.ID())
					err = pr.Dial(h0.ID())
				}
				allowed := err == nil
				e.Result = fmt.Sprintf("allowed=%v", allowed)
				bannedAt, banned := md.bannedAt[ip]
				if allowed && !md.blacklisted[ip] && p0.VerifGater().VerifLockFree() {
					// "accepted again with a clean score": whenever a gate lets an address in, what the gater holds
					// against it is below the ban threshold - a ban that is over is forgotten, not merely ignored
					if sc, _, known := p0.VerifGater().VerifScore(net.ParseIP(ip)); known && sc >= 100 {
						log_ = append(log_, e)
						fail("gate", "accepted-with-old-score", "connection with %s allowed at %v (ban of %v, %v long) while the gater still holds a score of %d against it", ip, now, bannedAt, expiry, sc)
						return
					}
					simkit.Probe("c18_accepted_with_score_below_threshold")
				}
				switch {
				case uncertain[ip] && !md.blacklisted[ip]:
					// no verdict
				case md.blacklisted[ip] && allowed:
					log_ = append(log_, e)
					fail("gate", "blacklist", "connection with permanently blacklisted %s was allowed", ip)
					return
				case banned && now <= bannedAt+expiry-time.Second && allowed:
					log_ = append(log_, e)
					fail("gate", "banned", "connection with %s allowed at %v although it was banned at %v for %v", ip, now, bannedAt, expiry)
					return
				case !md.blacklisted[ip] && !banned && !allowed:
					w := "never-penalised"
					if md.penalised[ip] {
						w = "after-expiry-or-below-threshold"
					}
					log_ = append(log_, e)
					fail("gate", w, "connection with %s refused at %v although it is neither blacklisted nor banned (model score %d)", ip, now, md.score[ip])
					return
				}
			}
			log_ = append(log_, e)
			// score cross-check where the model is certain (no ban pending expiry)
			if _, banned := md.bannedAt[ip]; !banned && !uncertain[ip] && !md.blacklisted[ip] && p0.VerifGater().VerifLockFree() {
				sc, _, known := p0.VerifGater().VerifScore(net.ParseIP(ip))
				if (known && sc != md.score[ip]) || (!known && md.score[ip] != 0) {
					fail("score", "sum", "score of %s is %d (known=%v), model says %d", ip, sc, known, md.score[ip])
					return
				}
			}
		}
	})
	res := k.Run(6000, nil, func() bool { return finished })
	if k.InfraErr != "" {
		t.Fatalf("infra: %s", k.InfraErr)
	}
	simkit.AddSteps(int64(res.Steps))
	simkit.AddSimSeconds(simrt.C.Elapsed().Seconds())
	if len(k.Panics) > 0 {
		simkit.Fail(t, prop, "panic", "task", "a p2p goroutine panicked: %s | events=%+v", k.Panics[0], log_)
	}
	if failure != nil {
		failure()
	}
	if !finished {
		simkit.Fail(t, prop, "deadlock", "stuck", "penalty/gater layer blocked: stuck=%v budget=%v steps=%d %v %s | events=%+v", res.Stuck, res.Budget, res.Steps, res.StuckInfo, k.NativeBlockedStacks(), log_)
	}
	simkit.DetLog("sched=%x steps=%d simtime=%v events=%+v", k.SchedHash, res.Steps, simrt.C.Elapsed(), log_)
	simkit.Distinct(fmt.Sprintf("%+v", log_))
	simkit.Sample(map[string]interface{}{"events": log_, "expiry_s": expirySecs})
	cancelAll()
}
