package p2psim

import (
	"context"
	"fmt"
	"testing"
	"time"

	"github.com/libp2p/go-libp2p/core/protocol"
	"pgregory.net/rapid"

	"github.com/LiskHQ/lisk-engine/pkg/log"
	"github.com/LiskHQ/lisk-engine/pkg/p2p"

	"verif/sim/simhost"
	"verif/sim/simkit"
	"verif/sim/simrt"
	"verif/sim/simsync"
	"verif/sim/simtime"
)

// ---- C09, the part pkg/p2p itself faces: request and response envelopes from a hostile peer ---------------------------
//
// One node runs the real message protocol (request and response stream handlers, rate limiter, connection gater, Peer)
// over the simulated host. Two hostile peers open streams on the request and on the response protocol and write what
// they like: well-formed envelopes with registered / misspelt / empty / binary procedure names, with empty, unknown or
// huge ids, with and without data and error fields; the same truncated, with a flipped bit, with a varint length far
// beyond the buffer, with trailing bytes; plain random bytes; nothing at all. An honest requester of the node keeps a
// request of its own in flight meanwhile (so that responses with its id can be forged). Oracle: no goroutine of the
// node panics (the stream handlers have no recover: a panic there ends the process), nothing is stuck.

func TestC09Envelopes(t *testing.T) {
	rapid.Check(t, func(t *rapid.T) {
		simkit.AddRun()
		defer simkit.Watch(120*time.Second, "C09 envelope run")()
		simkit.Guard(func() { runC09Envelopes(t) })
	})
}

func pbField(num int, b []byte) []byte {
	out := []byte{byte(num<<3 | 2)}
	n := len(b)
	for n >= 0x80 {
		out = append(out, byte(n)|0x80)
		n >>= 7
	}
	out = append(out, byte(n))
	return append(out, b...)
}

func runC09Envelopes(t *rapid.T) {
	const prop = "C09"
	k := resetRun(t)
	defer k.Shutdown()
	ctx, cancelAll := context.WithCancel(context.Background())
	defer cancelAll()
	var wg simsync.WaitGroup
	net_ := simhost.NewNet([]simhost.Fault{{Latency: 2 * time.Millisecond}})
	logger, _ := log.NewSilentLogger()
	h0 := net_.NewHost("n0", "/ip4/10.0.0.1/tcp/4001")
	p0, err := p2p.VerifNewPeer(ctx, &wg, logger, h0, time.Hour, 10*time.Second, nil)
	if err != nil {
		t.Fatalf("infra: %v", err)
	}
	h0.SetGater(p0.VerifGater())
	mp0 := p2p.VerifNewMessageProtocol(chainID, "1.0")
	if err := mp0.RegisterRPCHandler("echo", func(w p2p.ResponseWriter, req *p2p.Request) { w.Write(expectedReply(req.Data)) }, p2p.WithRPCMessageCounter(simkit.Int(t, "ratelimit", 2, 50), 10)); err != nil {
		t.Fatalf("infra: %v", err)
	}
	mp0.VerifSetTimeout(3 * time.Second)
	mp0.VerifStart(ctx, logger, p0)
	k.Go("ratelimiter", "n0", func() { mp0.VerifRateLimiterHandler(ctx, &wg) })
	reqProto := protocol.ID(fmt.Sprintf("/lisk/message/req/%x/1.0", chainID))
	resProto := protocol.ID(fmt.Sprintf("/lisk/message/res/%x/1.0", chainID))
	hostile := make([]*simhost.Host, 2)
	for i := range hostile {
		hostile[i] = net_.NewHost(fmt.Sprintf("h%d", i+1), fmt.Sprintf("/ip4/10.0.1.%d/tcp/4001", i+1))
		hostile[i].SetStreamHandler(resProto, func(s networkStream) {})
		// requests of the node reach the hostile peer too; it never answers them properly
		hostile[i].SetStreamHandler(reqProto, func(s networkStream) {})
	}
	// what the hostile peers write, drawn before the run
	type shot struct {
		from     int
		response bool
		data     []byte
		how      string
	}
	n := simkit.Int(t, "nshots", 1, 12)
	shots := make([]shot, n)
	for i := range shots {
		s := shot{from: simkit.Int(t, "from", 0, 1), response: simkit.Bool(t, "onresponseprotocol")}
		proc := []string{"echo", "echo", "ech", "", "\x00", "getLastBlock", "echo\x00", string(make([]byte, 300))}[simkit.Int(t, "proc", 0, 7)]
		id := []string{"", "x", "00000000-0000-0000-0000-000000000000", string(make([]byte, 2000))}[simkit.Int(t, "id", 0, 3)]
		env := append(pbField(1, []byte(id)), pbField(2, []byte(proc))...)
		if simkit.Bool(t, "withdata") {
			env = append(env, pbField(3, simkit.Bytes(t, "data", 0, 40))...)
		}
		if s.response && simkit.Bool(t, "witherror") {
			env = append(env, pbField(4, []byte("boom"))...)
		}
		s.how = fmt.Sprintf("envelope(proc=%q id=%d bytes)", proc, len(id))
		switch simkit.Int(t, "mutation", 0, 7) {
		case 0, 1, 2:
		case 3:
			if len(env) > 0 {
				env = env[:simkit.Int(t, "cut", 0, len(env)-1)]
				s.how += " truncated"
			}
		case 4:
			if len(env) > 0 {
				env[simkit.Int(t, "flipat", 0, len(env)-1)] ^= 1 << uint(simkit.Int(t, "flipbit", 0, 7))
				s.how += " bit flipped"
			}
		case 5:
			env = append([]byte{byte(simkit.Int(t, "fieldnum", 1, 4)<<3 | 2), 0xff, 0xff, 0xff, 0xff, 0xff, 0xff, 0xff, 0xff, 0xff, 0x01}, env...)
			s.how += " with a ten-byte length prefix in front"
		case 6:
			env = append(env, simkit.Bytes(t, "trailing", 1, 8)...)
			s.how += " with trailing bytes"
		default:
			env = simkit.Bytes(t, "random", 0, 12)
			s.how = fmt.Sprintf("%d random bytes", len(env))
		}
		s.data = env
		shots[i] = s
	}
	var sent []string
	finished := false
	k.Go("driver", "harness", func() {
		defer func() { finished = true }()
		for i := range hostile {
			_ = hostile[i].Dial(h0.ID())
		}
		// the node has a request of its own in flight to a hostile peer (which never answers): forged responses race it
		k.Go("own-request", "n0", func() { _ = mp0.RequestFrom(ctx, hostile[0].ID(), "echo", []byte("own")) })
		for _, s := range shots {
			from := hostile[s.from]
			if !from.Connected(h0.ID()) {
				if err := from.Dial(h0.ID()); err != nil {
					sent = append(sent, "(banned) "+s.how)
					continue
				}
			}
			proto := reqProto
			if s.response {
				proto = resProto
			}
			st, err := from.NewStream(ctx, h0.ID(), proto)
			if err != nil {
				continue
			}
			_, _ = st.Write(s.data)
			_ = st.Close()
			simkit.Fault("hostile_envelope")
			if s.response {
				simkit.Probe("c09_hostile_response_envelope")
			} else {
				simkit.Probe("c09_hostile_request_envelope")
			}
			sent = append(sent, fmt.Sprintf("%s on %v", s.how, map[bool]string{true: "response protocol", false: "request protocol"}[s.response]))
			simtime.Sleep(time.Duration(simkit.Int(t, "gapms", 0, 400)) * time.Millisecond)
		}
		simtime.Sleep(4 * time.Second)
	})
	res := k.Run(8000, nil, func() bool { return finished })
	if k.InfraErr != "" {
		t.Fatalf("infra: %s", k.InfraErr)
	}
	simkit.AddSteps(int64(res.Steps))
	simkit.AddSimSeconds(simrt.C.Elapsed().Seconds())
	if len(k.Panics) > 0 {
		simkit.Sample(map[string]interface{}{"sent": sent, "panic": k.Panics[0]})
		simkit.Fail(t, prop, "panic", "p2p-envelope", "a goroutine of the node's request/response layer panicked (no recover on the stream handlers: the process dies): %s | the hostile peers had sent: %q", k.Panics[0], sent)
	}
	if !finished {
		simkit.Fail(t, prop, "hang", "p2p-envelope", "request/response layer blocked: stuck=%v budget=%v steps=%d %v %s | sent: %q", res.Stuck, res.Budget, res.Steps, res.StuckInfo, k.NativeBlockedStacks(), sent)
	}
	simkit.DetLog("sched=%x steps=%d sent=%q", k.SchedHash, res.Steps, sent)
	simkit.Distinct(fmt.Sprintf("%q", sent))
	simkit.Sample(map[string]interface{}{"sent": sent})
	cancelAll()
}
