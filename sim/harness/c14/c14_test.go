// C14: the transaction pool keeps its indexes consistent, bounded and live (schedsim: real pkg/txpool, every lock,
// go statement, select and timer under the deterministic kernel).
package c14

import (
	"context"
	"fmt"
	"os"
	"sort"
	"strings"
	"sync"
	"testing"
	"time"

	"pgregory.net/rapid"

	"github.com/LiskHQ/lisk-engine/pkg/blockchain"
	"github.com/LiskHQ/lisk-engine/pkg/codec"
	"github.com/LiskHQ/lisk-engine/pkg/crypto"
	"github.com/LiskHQ/lisk-engine/pkg/labi"
	"github.com/LiskHQ/lisk-engine/pkg/log"
	"github.com/LiskHQ/lisk-engine/pkg/p2p"
	"github.com/LiskHQ/lisk-engine/pkg/txpool"

	"verif/sim/simkit"
	"verif/sim/simrt"
)

const prop = "C14"

func TestMain(m *testing.M) {
	simkit.Init(prop)
	code := m.Run()
	simkit.Flush()
	os.Exit(code)
}

type rapidChooser struct{ t *rapid.T }

func (c rapidChooser) Intn(label string, n int) int {
	if n <= 1 {
		return 0
	}
	return rapid.IntRange(0, n-1).Draw(c.t, label)
}

// ---- stubs around the pool ----------------------------------------------------------------------------------

type connStub struct {
	mu        sync.Mutex
	published [][]byte
}

func (c *connStub) Broadcast(ctx context.Context, event string, data []byte) error { return nil }
func (c *connStub) RegisterRPCHandler(endpoint string, handler p2p.RPCHandler, opts ...p2p.RPCHandlerOption) error {
	return nil
}
func (c *connStub) RegisterEventHandler(name string, handler p2p.EventHandler, validator p2p.Validator) error {
	return nil
}
func (c *connStub) ApplyPenalty(pid p2p.PeerID, score int) {}
func (c *connStub) RequestFrom(ctx context.Context, peerID p2p.PeerID, procedure string, data []byte) p2p.Response {
	return p2p.Response{}
}
func (c *connStub) Publish(ctx context.Context, topicName string, data []byte) error {
	c.mu.Lock()
	c.published = append(c.published, data)
	c.mu.Unlock()
	return nil
}

// model verifier: account nonce per sender; a drawn set of invalid ids
type abiModel struct {
	mu      sync.Mutex
	nonce   map[string]uint64
	maxSeen map[string]uint64 // the largest account nonce the verifier ever answered with, per sender
	invalid map[string]bool
	okSeen  map[string]bool // ids that were answered OK at least once
}

func (a *abiModel) VerifyTransaction(req *labi.VerifyTransactionRequest) (*labi.VerifyTransactionResponse, error) {
	a.mu.Lock()
	defer a.mu.Unlock()
	tx := req.Transaction
	if a.invalid[string(tx.ID)] {
		simkit.Fault("verifier_rejects_transaction")
		return &labi.VerifyTransactionResponse{Result: labi.TxVerifyResultInvalid}, nil
	}
	n := a.nonce[string(tx.SenderAddress())]
	if n > a.maxSeen[string(tx.SenderAddress())] {
		a.maxSeen[string(tx.SenderAddress())] = n
	}
	switch {
	case tx.Nonce < n:
		return &labi.VerifyTransactionResponse{Result: labi.TxVerifyResultInvalid}, nil
	case tx.Nonce > n:
		return &labi.VerifyTransactionResponse{Result: labi.TxVerifyResultPending}, nil
	}
	a.okSeen[string(tx.ID)] = true
	return &labi.VerifyTransactionResponse{Result: labi.TxVerifyResultOk}, nil
}

type opRec struct {
	Client int    `json:"c"`
	Op     string `json:"op"`
	Sender int    `json:"s,omitempty"`
	Nonce  uint64 `json:"n,omitempty"`
	Fee    uint64 `json:"fee,omitempty"`
	Res    string `json:"res,omitempty"`
}

func TestC14(t *testing.T) {
	rapid.Check(t, func(t *rapid.T) {
		simkit.AddRun()
		defer simkit.Watch(120*time.Second, "C14 run")()
		simkit.Guard(func() { runC14(t) })
	})
}

type plannedOp struct {
	kind   int // 0 add, 1 remove, 2 get, 3 getall, 4 getprocessable, 5 block applied, 6 yield, 7 block reverted
	sender int
	nonce  uint64
	fee    uint64
	target int // index into created txs for remove/get
}

func runC14(t *rapid.T) {
	// ---- draw the whole workload first (tasks never draw) ----
	cfg := &txpool.TransactionPoolConfig{
		MaxTransactions:             simkit.Int(t, "maxtx", 1, 8),
		MaxTransactionsPerAccount:   simkit.Int(t, "maxper", 1, 5),
		MinReplacementFeeDifference: uint64(simkit.Int(t, "mindiff", 1, 3)) * 100000,
		TransactionExpiryTime:       3600,
	}
	nSenders := simkit.Int(t, "nsenders", 1, 3)
	nClients := simkit.Int(t, "nclients", 1, 4)
	type senderKeys struct{ pub, priv []byte }
	senders := make([]senderKeys, nSenders)
	for i := range senders {
		pub, priv, _ := crypto.GetKeys(fmt.Sprintf("c14-sender-%d", i))
		senders[i] = senderKeys{pub, priv}
	}
	plans := make([][]plannedOp, nClients)
	totalOps := 0
	for c := range plans {
		n := simkit.Int(t, "nops", 1, 10)
		for i := 0; i < n; i++ {
			op := plannedOp{kind: []int{0, 0, 0, 0, 1, 2, 3, 4, 5, 6, 5, 7, 7}[simkit.Int(t, "kind", 0, 12)]}
			op.sender = simkit.Int(t, "sender", 0, nSenders-1)
			op.nonce = uint64(simkit.Int(t, "nonce", 0, 5))
			// fees around the replacement threshold; unique-ish priorities
			op.fee = uint64(1000000 + simkit.Int(t, "fee", 0, 6)*100000 + simkit.Int(t, "feelow", 0, 2)*((1+c)*7+i))
			op.target = simkit.Int(t, "target", 0, 11)
			plans[c] = append(plans[c], op)
			totalOps++
		}
	}
	invalidEvery := simkit.Int(t, "invalidevery", 0, 6) // every k-th created tx is invalid for the verifier (0 = none)

	// ---- set up the run ----
	simrt.ResetClock()
	k := simrt.NewKernel(rapidChooser{t})
	simrt.YieldLocks = true
	defer k.Shutdown()
	pool := txpool.NewTransactionPool(cfg)
	logger, _ := log.NewSilentLogger()
	conn := &connStub{}
	abi := &abiModel{nonce: map[string]uint64{}, maxSeen: map[string]uint64{}, invalid: map[string]bool{}, okSeen: map[string]bool{}}
	ctx, cancel := context.WithCancel(context.Background())
	defer cancel()
	if err := pool.Init(ctx, logger, nil, nil, conn, abi); err != nil {
		t.Fatalf("infra: %v", err)
	}
	var hmu sync.Mutex
	var hist []opRec
	var created []*blockchain.Transaction
	appliedBlocks := map[int][][]*blockchain.Transaction{} // per sender: the blocks applied so far (for reverts)
	seenID := map[string]bool{}
	record := func(r opRec) { hmu.Lock(); hist = append(hist, r); hmu.Unlock() }
	fail := func(oracle, witness, format string, args ...interface{}) {
		hmu.Lock()
		h := append([]opRec(nil), hist...)
		hmu.Unlock()
		cfgs := fmt.Sprintf("max=%d maxPerAccount=%d minReplDiff=%d", cfg.MaxTransactions, cfg.MaxTransactionsPerAccount, cfg.MinReplacementFeeDifference)
		simkit.Sample(map[string]interface{}{"config": cfgs, "history": h})
		simkit.Fail(t, prop, oracle, witness, format+" | %s history=%+v", append(args, cfgs, h)...)
	}
	mkTx := func(op plannedOp) *blockchain.Transaction {
		s := senders[op.sender]
		tx := &blockchain.Transaction{Module: "sim", Command: "prog", Nonce: op.nonce, Fee: op.fee, SenderPublicKey: s.pub, Params: []byte{}}
		tx.Signatures = []codec.Hex{tx.GetSignature([]byte{0, 0, 0, 7}, s.priv)}
		tx.Init()
		return tx
	}
	k.Go("pool.Start", "", func() { pool.Start() })
	done := make([]bool, nClients)
	for c := range plans {
		c := c
		k.Go(fmt.Sprintf("client%d", c), "", func() {
			for _, op := range plans[c] {
				switch op.kind {
				case 0:
					tx := mkTx(op)
					hmu.Lock()
					created = append(created, tx)
					first := !seenID[string(tx.ID)]
					seenID[string(tx.ID)] = true
					// the verifier never changes its mind about an id it has already answered for
					if first && invalidEvery > 0 && len(created)%invalidEvery == 0 {
						abi.mu.Lock()
						abi.invalid[string(tx.ID)] = true
						abi.mu.Unlock()
					}
					hmu.Unlock()
					ok := pool.Add(tx)
					record(opRec{Client: c, Op: "add", Sender: op.sender, Nonce: op.nonce, Fee: op.fee, Res: fmt.Sprint(ok)})
				case 1, 2:
					hmu.Lock()
					var tx *blockchain.Transaction
					if len(created) > 0 {
						tx = created[op.target%len(created)]
					}
					hmu.Unlock()
					if tx == nil {
						continue
					}
					if op.kind == 1 {
						ok := pool.Remove(tx.ID)
						record(opRec{Client: c, Op: "remove", Sender: -1, Nonce: tx.Nonce, Fee: tx.Fee, Res: fmt.Sprint(ok)})
					} else {
						_, ok := pool.Get(tx.ID)
						record(opRec{Client: c, Op: "get", Nonce: tx.Nonce, Fee: tx.Fee, Res: fmt.Sprint(ok)})
					}
				case 3:
					n := len(pool.GetAll())
					record(opRec{Client: c, Op: "getall", Res: fmt.Sprint(n)})
				case 4:
					n := len(pool.GetProcessable())
					record(opRec{Client: c, Op: "getprocessable", Res: fmt.Sprint(n)})
				case 5: // a block with this sender's processable transactions was applied: account nonce advances, txs removed
					addr := string(crypto.GetAddress(senders[op.sender].pub))
					var mine []*blockchain.Transaction
					for _, tx := range pool.GetProcessable() {
						if string(tx.SenderAddress()) == addr {
							mine = append(mine, tx)
						}
					}
					sort.Slice(mine, func(i, j int) bool { return mine[i].Nonce < mine[j].Nonce })
					applied := 0
					abi.mu.Lock()
					for _, tx := range mine {
						if tx.Nonce == abi.nonce[addr] {
							abi.nonce[addr]++
							applied++
						}
					}
					abi.mu.Unlock()
					if applied > 0 {
						hmu.Lock()
						appliedBlocks[op.sender] = append(appliedBlocks[op.sender], append([]*blockchain.Transaction(nil), mine[:applied]...))
						hmu.Unlock()
					}
					for _, tx := range mine[:applied] {
						pool.Remove(tx.ID)
					}
					record(opRec{Client: c, Op: "block-applied", Sender: op.sender, Res: fmt.Sprint(applied)})
				case 7: // the last applied block of this sender is reverted: the account nonce goes back, the generator
					// hands the block's transactions to the pool again (generator.onDeleteBlock)
					addr := string(crypto.GetAddress(senders[op.sender].pub))
					hmu.Lock()
					var blk []*blockchain.Transaction
					if l := appliedBlocks[op.sender]; len(l) > 0 {
						blk = l[len(l)-1]
						appliedBlocks[op.sender] = l[:len(l)-1]
					}
					hmu.Unlock()
					if blk == nil {
						continue
					}
					abi.mu.Lock()
					abi.nonce[addr] -= uint64(len(blk))
					abi.mu.Unlock()
					simkit.Fault("block_reverted_transactions_readded")
					back := 0
					for _, tx := range blk {
						if pool.Add(tx) {
							back++
						}
					}
					record(opRec{Client: c, Op: "block-reverted", Sender: op.sender, Res: fmt.Sprintf("%d/%d", back, len(blk))})
				default:
					simrt.Yield("client-yield")
				}
			}
			done[c] = true
		})
	}

	allDone := func() bool {
		for _, d := range done {
			if !d {
				return false
			}
		}
		return true
	}
	endAt := time.Duration(-1)
	checks := 0
	prevAt := map[string]txpool.VerifTx{}
	invariants := func() {
		if !pool.VerifLocksFree() {
			return
		}
		checks++
		s := pool.VerifSnapshot()
		if msg, wit := checkSnapshot(s, cfg, abi); msg != "" {
			fail("index", wit, "%s", msg)
		}
		// replacement rule: every mutating pool call is separated from the next by a lock-free quiescent instant, so a
		// direct change of the transaction pooled at (sender, nonce) between two checked instants is a replacement
		cur := map[string]txpool.VerifTx{}
		for _, tx := range s.All {
			cur[fmt.Sprintf("%x/%d", tx.Sender, tx.Nonce)] = tx
		}
		keys := make([]string, 0, len(cur))
		for k := range cur {
			keys = append(keys, k)
		}
		sort.Strings(keys)
		for _, k := range keys {
			if old, ok := prevAt[k]; ok && old.ID != cur[k].ID {
				if cur[k].Fee < old.Fee+cfg.MinReplacementFeeDifference {
					fail("replacement", "fee", "transaction at %s with fee %d was replaced by one with fee %d (required increase %d)", k[len(k)-8:], old.Fee, cur[k].Fee, cfg.MinReplacementFeeDifference)
				}
				simkit.Probe("replacement")
			}
		}
		prevAt = cur
	}
	stop := func() bool {
		if allDone() && endAt < 0 {
			endAt = simrt.C.Elapsed() + 1200*time.Millisecond // two more promotion rounds
		}
		return endAt >= 0 && simrt.C.Elapsed() >= endAt
	}
	budget := 400 + 120*totalOps
	res := k.Run(budget, invariants, stop)
	if k.InfraErr != "" {
		t.Fatalf("infra: %s", k.InfraErr)
	}
	simkit.AddSteps(int64(res.Steps))
	simkit.AddSimSeconds(simrt.C.Elapsed().Seconds())
	simkit.Count("invariant_evaluations", int64(checks))
	if len(k.Panics) > 0 {
		fail("panic", "task", "a pool goroutine panicked: %s", k.Panics[0])
	}
	if res.Stuck || (res.Budget && !allDone()) {
		info := res.StuckInfo
		if !res.Stuck {
			info = append([]string{"step budget exhausted with unfinished client calls"}, info...)
		}
		wit := "stuck"
		for _, l := range info {
			if strings.Contains(l, "RWMutex") {
				wit = "pool-lock"
				break
			}
		}
		fail("deadlock", wit, "pool operations did not return: %s", strings.Join(info, " ; "))
	}
	if !res.Stopped && !res.Budget {
		// all tasks ended on their own: fine
	}
	// final consistency with locks certainly free
	if pool.VerifLocksFree() {
		if msg, wit := checkSnapshot(pool.VerifSnapshot(), cfg, abi); msg != "" {
			fail("index", wit, "%s", msg)
		}
	}
	hmu.Lock()
	simkit.DetLog("sched=%x steps=%d simtime=%v hist=%+v", k.SchedHash, res.Steps, simrt.C.Elapsed(), hist)
	simkit.Distinct(k.SchedHash, fmt.Sprintf("%+v", hist))
	simkit.Sample(map[string]interface{}{"history": hist, "steps": res.Steps})
	hmu.Unlock()
	pool.End()
	cancel()
}

func sortedNonces(m map[uint64]string) []uint64 {
	out := make([]uint64, 0, len(m))
	for n := range m {
		out = append(out, n)
	}
	sort.Slice(out, func(i, j int) bool { return out[i] < out[j] })
	return out
}

// checkSnapshot is deterministic: it walks everything in sorted order, so that the same state gives the same message.
func checkSnapshot(s *txpool.VerifSnapshot, cfg *txpool.TransactionPoolConfig, abi *abiModel) (string, string) {
	perAcc := 0
	seen := map[string]bool{}
	sort.Slice(s.Accounts, func(i, j int) bool { return s.Accounts[i].Sender < s.Accounts[j].Sender })
	allIDs := make([]string, 0, len(s.All))
	for id := range s.All {
		allIDs = append(allIDs, id)
	}
	sort.Strings(allIDs)
	for _, a := range s.Accounts {
		if len(a.Transactions) > cfg.MaxTransactionsPerAccount {
			return fmt.Sprintf("sender %x holds %d transactions, limit %d", a.Sender, len(a.Transactions), cfg.MaxTransactionsPerAccount), "per-sender-limit"
		}
		if len(a.Nonces) != len(a.Transactions) {
			return fmt.Sprintf("sender %x: nonce heap has %d entries, transaction map %d", a.Sender, len(a.Nonces), len(a.Transactions)), "nonce-heap"
		}
		for _, n := range a.Nonces {
			if _, ok := a.Transactions[n]; !ok {
				return fmt.Sprintf("sender %x: nonce %d in heap but not in map", a.Sender, n), "nonce-heap"
			}
		}
		for _, n := range sortedNonces(a.Transactions) {
			id := a.Transactions[n]
			perAcc++
			tx, ok := s.All[id]
			if !ok {
				return fmt.Sprintf("transaction %x (sender %x nonce %d) is in the sender list but not in the id index", id[:4], a.Sender[:4], n), "sender-list-not-in-all"
			}
			if tx.Nonce != n || tx.Sender != a.Sender {
				return fmt.Sprintf("transaction %x indexed under sender %x nonce %d but is sender %x nonce %d", id[:4], a.Sender[:4], n, tx.Sender[:4], tx.Nonce), "misfiled"
			}
			seen[id] = true
		}
		// processables: ascending, gap-free, pooled; the run must start at a nonce the verifier can accept:
		// a first processable nonce above every account nonce the verifier ever used was pending when it was promoted
		for i, n := range a.Processables {
			id, ok := a.Transactions[n]
			if !ok {
				return fmt.Sprintf("sender %x: processable nonce %d is not pooled", a.Sender[:4], n), "processable-not-pooled"
			}
			if i > 0 && n != a.Processables[i-1]+1 {
				return fmt.Sprintf("sender %x: processable nonces %v are not a gap-free ascending run", a.Sender[:4], a.Processables), "processable-gap"
			}
			abi.mu.Lock()
			acct := abi.nonce[a.Sender]
			if m := abi.maxSeen[a.Sender]; m > acct {
				acct = m // a reverted block took the account nonce back: the run was verified against the larger value
			}
			inv := abi.invalid[id]
			abi.mu.Unlock()
			if i == 0 && n > acct {
				return fmt.Sprintf("sender %x: nonce %d is processable although the account nonce is %d (the verifier answered pending, never ok)", a.Sender[:4], n, acct), "processable-unverified"
			}
			if inv {
				return fmt.Sprintf("sender %x: nonce %d is processable although the verifier rejects it as invalid", a.Sender[:4], n), "processable-invalid"
			}
		}
	}
	for _, id := range allIDs {
		tx := s.All[id]
		if !seen[id] {
			return fmt.Sprintf("transaction %x (nonce %d fee %d) is in the id index but in no sender list at its nonce (replaced or evicted transaction left behind)", id[:4], tx.Nonce, tx.Fee), "all-not-in-sender-list"
		}
	}
	if len(s.All) > cfg.MaxTransactions {
		return fmt.Sprintf("pool holds %d transactions, limit %d", len(s.All), cfg.MaxTransactions), "pool-limit"
	}
	q := map[string]int{}
	for _, id := range s.FeeQueue {
		q[id]++
	}
	for _, id := range allIDs {
		if q[id] != 1 {
			return fmt.Sprintf("transaction %x appears %d times in the fee queue", id[:4], q[id]), "fee-queue"
		}
	}
	if len(s.FeeQueue) != len(s.All) {
		return fmt.Sprintf("fee queue has %d entries, id index %d", len(s.FeeQueue), len(s.All)), "fee-queue"
	}
	return "", ""
}
