// C16: transaction execution is atomic; the state root is a function of the state; restart recovery (seqsim over the
// real ABI handler + state machine + diff store + SMT, state DB on the simulated disk).
package c16

import (
	"bytes"
	"context"
	"fmt"
	"os"
	"sort"
	"testing"
	"time"

	"pgregory.net/rapid"

	"github.com/LiskHQ/lisk-engine/pkg/blockchain"
	"github.com/LiskHQ/lisk-engine/pkg/codec"
	"github.com/LiskHQ/lisk-engine/pkg/crypto"
	"github.com/LiskHQ/lisk-engine/pkg/db"
	"github.com/LiskHQ/lisk-engine/pkg/framework"
	fconfig "github.com/LiskHQ/lisk-engine/pkg/framework/config"
	"github.com/LiskHQ/lisk-engine/pkg/labi"
	"github.com/LiskHQ/lisk-engine/pkg/log"
	"github.com/LiskHQ/lisk-engine/pkg/statemachine"

	"verif/sim/refmodel"
	"verif/sim/simfs"
	"verif/sim/simkit"
	"verif/sim/simmod"
)

const prop = "C16"

func TestMain(m *testing.M) {
	simkit.Init(prop)
	code := m.Run()
	simkit.Flush()
	os.Exit(code)
}

func TestC16(t *testing.T) {
	rapid.Check(t, func(t *rapid.T) {
		simkit.AddRun()
		defer simkit.Watch(90*time.Second, "C16 run")()
		simkit.Guard(func() { runC16(t) })
	})
}

var chainID = []byte{0, 0, 0, 7}

type app struct {
	disk    *simfs.Disk
	fs      *simfs.FS
	stateDB *db.DB
	modDB   *db.DB
	handler *framework.ABIHandler
	knobs   db.VerifOpts
}

func (a *app) open(t *rapid.T, cfg *simmod.Config, genesis *blockchain.Block) {
	a.fs = a.disk.Open()
	fs := a.fs
	a.knobs.Fatal = func(msg string) { fs.Die("pebble fatal: " + msg) }
	var err error
	a.stateDB, err = db.NewDBWithFS("/data/state.db", a.fs, a.knobs)
	if err != nil {
		t.Fatalf("infra: open state db: %v", err)
	}
	a.modDB, err = db.NewDBWithFS("/data/module.db", a.fs, a.knobs)
	if err != nil {
		t.Fatalf("infra: open module db: %v", err)
	}
	logger, _ := log.NewSilentLogger()
	sm := statemachine.NewExecuter()
	sm.Init(logger)
	mod := simmod.New(cfg)
	if err := sm.AddModule(mod); err != nil {
		t.Fatalf("infra: %v", err)
	}
	a.handler = framework.NewABIHandler(context.Background(), &fconfig.ApplicationConfig{}, logger, sm, genesis, a.stateDB, a.modDB, []framework.Module{mod})
}

// model of one committed block
type blockRec struct {
	height uint32
	state  map[string][]byte // full module keys -> value (after the block)
	root   []byte
	header *blockchain.BlockHeader
}

func cloneState(m map[string][]byte) map[string][]byte {
	c := make(map[string][]byte, len(m))
	for k, v := range m {
		c[k] = v
	}
	return c
}

func treeRoot(state map[string][]byte) []byte {
	tm := map[string][]byte{}
	for k, v := range state {
		kb := []byte(k)
		tk := append(append([]byte(nil), kb[:6]...), refmodel.H(kb[6:])...)
		tm[string(tk)] = refmodel.H(v)
	}
	return refmodel.SMTRoot(tm)
}

func stateDump(d *db.DB) map[string][]byte {
	m := map[string][]byte{}
	for _, e := range d.VerifDump() {
		if len(e.K) > 0 && e.K[0] == 0 { // StateDBPrefixState
			m[string(e.K[1:])] = e.V
		}
	}
	return m
}

func diffMaps(got, want map[string][]byte) string {
	var keys []string
	seen := map[string]bool{}
	for k := range got {
		seen[k] = true
		keys = append(keys, k)
	}
	for k := range want {
		if !seen[k] {
			keys = append(keys, k)
		}
	}
	sort.Strings(keys)
	s := ""
	for _, k := range keys {
		g, gok := got[k]
		w, wok := want[k]
		if gok != wok || !bytes.Equal(g, w) {
			s += fmt.Sprintf(" key %x: got (%x,%v) want (%x,%v);", k, g, gok, w, wok)
		}
	}
	return s
}

type txRec struct {
	Prog    string `json:"prog"`
	Fails   bool   `json:"fails"`
	Invalid bool   `json:"invalid,omitempty"`
}
type opRec struct {
	Op     string  `json:"op"`
	Height uint32  `json:"height,omitempty"`
	Txs    []txRec `json:"txs,omitempty"`
	Note   string  `json:"note,omitempty"`
}

func runC16(t *rapid.T) {
	cfg := &simmod.Config{
		GenesisValidators:    []*labi.Validator{{Address: bytes.Repeat([]byte{1}, 20), BFTWeight: 1, GeneratorKey: bytes.Repeat([]byte{2}, 32), BLSKey: bytes.Repeat([]byte{3}, 48)}},
		PrecommitThreshold:   1,
		CertificateThreshold: 1,
		GenesisState:         map[string][]byte{},
		BlockEvents:          simkit.Bool(t, "blockevents"),
		StrictNonce:          true,
		QuietBlocks:          simkit.Bool(t, "quietblocks"),
	}
	// a small key universe so that commands overwrite and delete each other's keys
	type skey struct {
		store, sub byte
		key        []byte
	}
	var universe []skey
	for _, st := range []byte{1, 2} {
		for _, sb := range []byte{0, 1} {
			for _, k := range [][]byte{{}, {0x00}, {0x01}, {0x01, 0x02}, []byte("k")} {
				universe = append(universe, skey{st, sb, k})
			}
		}
	}
	nGen := simkit.Int(t, "ngenesis", 0, 5)
	for i := 0; i < nGen; i++ {
		u := universe[simkit.Int(t, "gk", 0, len(universe)-1)]
		cfg.GenesisState[string(simmod.FullKey(u.store, u.sub, u.key))] = []byte(fmt.Sprintf("g%d", i))
	}
	genesis := blockchain.NewGenesisBlock(0, 1_700_000_000, bytes.Repeat([]byte{0}, 32), blockchain.BlockAssets{})
	genesis.Init()

	a := &app{disk: simfs.NewDisk()}
	if simkit.Bool(t, "smallmem") {
		a.knobs.MemTableSize = 64 << 10
	}
	for _, d := range []string{"/data/state.db", "/data/module.db"} {
		if err := a.disk.MkdirDurable(d); err != nil {
			t.Fatalf("infra: %v", err)
		}
	}
	a.open(t, cfg, genesis)
	var hist []opRec
	fail := func(oracle, witness, format string, args ...interface{}) {
		simkit.Sample(map[string]interface{}{"history": hist})
		simkit.Fail(t, prop, oracle, witness, format+" | history=%+v", append(args, hist)...)
	}
	must := func(err error, what string) {
		if err != nil {
			fail("abi", "error", "%s returned %v", what, err)
		}
	}
	consensus := &labi.Consensus{CurrentValidators: cfg.GenesisValidators, CertificateThreshold: 1}

	// genesis: InitStateMachine, InitGenesisState, Commit
	res, err := a.handler.InitStateMachine(&labi.InitStateMachineRequest{Header: genesis.Header})
	must(err, "InitStateMachine(genesis)")
	_, err = a.handler.InitGenesisState(&labi.InitGenesisStateRequest{ContextID: res.ContextID})
	must(err, "InitGenesisState")
	cres, err := a.handler.Commit(&labi.CommitRequest{ContextID: res.ContextID, StateRoot: nil})
	must(err, "Commit(genesis)")
	_, _ = a.handler.Clear(&labi.ClearRequest{})
	chain := []*blockRec{{height: 0, state: cloneState(cfg.GenesisState), root: cres.StateRoot, header: genesis.Header}}
	if want := treeRoot(chain[0].state); !bytes.Equal(cres.StateRoot, want) {
		fail("root", "genesis", "genesis state root %x differs from the sparse Merkle root %x of the genesis state", []byte(cres.StateRoot), want)
	}
	_, err = a.handler.Init(&labi.InitRequest{ChainID: chainID, LastBlockHeight: 0, LastStateRoot: cres.StateRoot})
	must(err, "Init")

	// senders
	type sender struct {
		pub, priv []byte
		nonce     uint64 // model account nonce in the *staged* state
	}
	var senders []*sender
	for i := 0; i < 3; i++ {
		pub, priv, _ := crypto.GetKeys(fmt.Sprintf("sender-%d", i))
		senders = append(senders, &sender{pub: pub, priv: priv})
	}
	valCtr := 0

	tip := func() *blockRec { return chain[len(chain)-1] }
	checkDB := func(where string, want *blockRec) {
		if d := diffMaps(stateDump(a.stateDB), want.state); d != "" {
			fail("state", where, "state database differs from the model after %s:%s", where, d)
		}
	}

	nOps := simkit.Int(t, "nops", 1, 8)
	nontrivial := false
	for i := 0; i < nOps; i++ {
		switch op := simkit.Int(t, "op", 0, 9); {
		case op <= 5: // execute and commit a block
			height := tip().height + 1
			header := &blockchain.BlockHeader{Version: 2, Height: height, Timestamp: 1_700_000_000 + height*10, PreviousBlockID: bytes.Repeat([]byte{byte(height)}, 32),
				GeneratorAddress: bytes.Repeat([]byte{1}, 20), AggregateCommit: &blockchain.AggregateCommit{AggregationBits: []byte{}, CertificateSignature: []byte{}},
				StateRoot: []byte{}, TransactionRoot: []byte{}, AssetRoot: []byte{}, EventRoot: []byte{}, ValidatorsHash: []byte{}, Signature: []byte{}}
			header.Init()
			rec := opRec{Op: "block", Height: height}
			res, err := a.handler.InitStateMachine(&labi.InitStateMachineRequest{Header: header})
			must(err, "InitStateMachine")
			ctxID := res.ContextID
			staged := cloneState(tip().state)
			// model nonces from staged state
			nonceOf := func(s *sender) uint64 {
				v, ok := staged[string(simmod.AccountFullKey(crypto.GetAddress(s.pub)))]
				if !ok {
					return 0
				}
				n := uint64(0)
				for _, b := range v {
					n = n<<8 | uint64(b)
				}
				return n
			}
			bres, err := a.handler.BeforeTransactionsExecute(&labi.BeforeTransactionsExecuteRequest{ContextID: ctxID, Assets: blockchain.BlockAssets{}, Consensus: consensus})
			must(err, "BeforeTransactionsExecute")
			hb := []byte{byte(height >> 24), byte(height >> 16), byte(height >> 8), byte(height)}
			if !cfg.QuietBlocks {
				staged[string(simmod.BlockFullKey())] = hb
			}
			wantBlkEvents := 0
			if cfg.BlockEvents {
				wantBlkEvents = 1
			}
			if len(bres.Events) != wantBlkEvents {
				fail("events", "before-hook", "BeforeTransactionsExecute returned %d events, expected %d", len(bres.Events), wantBlkEvents)
			}
			nTx := simkit.Int(t, "ntx", 0, 4)
			var txs []*blockchain.Transaction
			for j := 0; j < nTx; j++ {
				s := senders[simkit.Int(t, "sender", 0, len(senders)-1)]
				// program
				var prog []simmod.Instr
				nIn := simkit.Int(t, "ninstr", 0, 5)
				for k := 0; k < nIn; k++ {
					u := universe[simkit.Int(t, "uk", 0, len(universe)-1)]
					switch simkit.Int(t, "iop", 0, 7) {
					case 6:
						prog = append(prog, simmod.Instr{Op: simmod.OpGet, Store: u.store, Sub: u.sub, Key: u.key})
					case 7:
						prog = append(prog, simmod.Instr{Op: simmod.OpHas, Store: u.store, Sub: u.sub, Key: u.key})
					case 0, 1:
						valCtr++
						v := []byte(fmt.Sprintf("v%d", valCtr))
						if simkit.Chance(t, "emptyval", 1, 8) {
							v = []byte{}
						}
						prog = append(prog, simmod.Instr{Op: simmod.OpSet, Store: u.store, Sub: u.sub, Key: u.key, Val: v})
					case 2, 3:
						prog = append(prog, simmod.Instr{Op: simmod.OpDel, Store: u.store, Sub: u.sub, Key: u.key})
					case 4:
						valCtr++
						prog = append(prog, simmod.Instr{Op: simmod.OpEvent, Key: []byte{byte(k)}, Val: []byte(fmt.Sprintf("e%d", valCtr))})
					default:
						valCtr++
						prog = append(prog, simmod.Instr{Op: simmod.OpEventU, Key: []byte{byte(k)}, Val: []byte(fmt.Sprintf("u%d", valCtr))})
					}
				}
				fails := simkit.Chance(t, "fails", 1, 3)
				if fails {
					prog = append(prog, simmod.Instr{Op: simmod.OpFail})
				}
				badNonce := simkit.Chance(t, "badnonce", 1, 10)
				tx := &blockchain.Transaction{Module: simmod.Name, Command: simmod.CommandName, Nonce: nonceOf(s), Fee: 1000, SenderPublicKey: s.pub, Params: simmod.EncodeProgram(prog)}
				if badNonce {
					tx.Nonce += 5
				}
				tx.Signatures = []codec.Hex{tx.GetSignature(chainID, s.priv)}
				tx.Init()
				rec.Txs = append(rec.Txs, txRec{Prog: fmt.Sprintf("%x", []byte(tx.Params)), Fails: fails, Invalid: badNonce})
				// through the codec, as a block would carry it
				wire, err := blockchain.NewTransaction(tx.Encode())
				must(err, "NewTransaction(own encoding)")
				eres, err := a.handler.ExecuteTransaction(&labi.ExecuteTransactionRequest{ContextID: ctxID, Transaction: wire, Assets: blockchain.BlockAssets{}, Header: header, Consensus: consensus})
				must(err, "ExecuteTransaction")
				if badNonce {
					if eres.Result != labi.TxExecuteResultInvalid {
						fail("exec", "invalid", "transaction with a wrong nonce got result %d, expected invalid", eres.Result)
					}
					// an invalid transaction would make the whole block invalid; the engine then drops the context.
					// Model: abandon this block.
					_, _ = a.handler.Clear(&labi.ClearRequest{})
					rec.Note = "abandoned: invalid transaction"
					hist = append(hist, rec)
					checkDB("abandoned block", tip())
					goto nextOp
				}
				// model: hook increments the nonce outside the command's snapshot
				pre := cloneState(staged)
				n := nonceOf(s) + 1
				nb := make([]byte, 8)
				for x := 0; x < 8; x++ {
					nb[7-x] = byte(n >> (8 * uint(x)))
				}
				pre[string(simmod.AccountFullKey(crypto.GetAddress(s.pub)))] = nb
				post := cloneState(pre)
				var wantEvents [][2]string // (name, data)
				for _, in := range prog {
					switch in.Op {
					case simmod.OpSet:
						post[string(simmod.FullKey(in.Store, in.Sub, in.Key))] = in.Val
					case simmod.OpDel:
						delete(post, string(simmod.FullKey(in.Store, in.Sub, in.Key)))
					case simmod.OpEvent:
						if !fails {
							wantEvents = append(wantEvents, [2]string{"ev", string(in.Val)})
						}
					case simmod.OpEventU:
						wantEvents = append(wantEvents, [2]string{"evu", string(in.Val)})
					}
				}
				if fails {
					staged = pre
					if eres.Result != labi.TxExecuteResultFail {
						fail("exec", "result", "failing command got result %d", eres.Result)
					}
				} else {
					staged = post
					if eres.Result != labi.TxExecuteResultSuccess {
						fail("exec", "result", "succeeding command got result %d", eres.Result)
					}
				}
				// events: the command's surviving events, then the standard result event; consecutive indexes
				wantEvents = append(wantEvents, [2]string{blockchain.EventNameDefault, string(blockchain.NewStandardTransactionEventData(!fails))})
				if len(eres.Events) != len(wantEvents) {
					w := "count-success"
					if fails {
						w = "count-failure"
					}
					fail("events", w, "transaction (fails=%v) returned %d events %s, expected %d %v", fails, len(eres.Events), fmtEvents(eres.Events), len(wantEvents), wantEvents)
				}
				for x, ev := range eres.Events {
					if ev.Name != wantEvents[x][0] || string(ev.Data) != wantEvents[x][1] {
						fail("events", "content", "event %d is %s/%x, expected %s/%x", x, ev.Name, []byte(ev.Data), wantEvents[x][0], wantEvents[x][1])
					}
					if ev.Index != uint32(x) {
						fail("events", "index", "event %d carries index %d (fails=%v): %s", x, ev.Index, fails, fmtEvents(eres.Events))
					}
					if len(ev.Topics) == 0 || !bytes.Equal(ev.Topics[0], wire.ID) {
						fail("events", "topic", "event %d does not carry the transaction id as first topic", x)
					}
				}
				txs = append(txs, wire)
			}
			{
				_, err = a.handler.AfterTransactionsExecute(&labi.AfterTransactionsExecuteRequest{ContextID: ctxID, Assets: blockchain.BlockAssets{}, Consensus: consensus, Transactions: txs})
				must(err, "AfterTransactionsExecute")
				wantRoot := treeRoot(staged)
				// dry run first (what the generator does), then the real commit (optionally crashing)
				if simkit.Bool(t, "dryrun") {
					dres, err := a.handler.Commit(&labi.CommitRequest{ContextID: ctxID, StateRoot: tip().root, DryRun: true})
					must(err, "Commit(dry run)")
					if !bytes.Equal(dres.StateRoot, wantRoot) {
						fail("root", "dryrun", "dry-run state root %x differs from the sparse Merkle root %x of the resulting state", []byte(dres.StateRoot), wantRoot)
					}
					checkDB("dry-run commit", tip())
				}
				newRec := &blockRec{height: height, state: staged, header: header}
				crash := simkit.Chance(t, "crash", 1, 4)
				var cres *labi.CommitResponse
				var cerr error
				crashed := false
				if crash {
					a.fs.CrashIn(simkit.Int(t, "crashop", 1, 4), simkit.Int(t, "tear", -1, 30))
					var pv interface{}
					crashed, pv = simfs.RunCrashable(a.fs, func() {
						cres, cerr = a.handler.Commit(&labi.CommitRequest{ContextID: ctxID, StateRoot: tip().root})
					})
					if pv != nil {
						fail("commit", "panic", "Commit panicked: %v", pv)
					}
					if !crashed && a.fs.Disarm() {
						crashed = true
					}
				} else {
					cres, cerr = a.handler.Commit(&labi.CommitRequest{ContextID: ctxID, StateRoot: tip().root})
				}
				if crashed {
					simkit.Fault("crash_in_commit")
					if simkit.Bool(t, "power") {
						a.disk.PowerLoss()
						simkit.Fault("power_loss")
					} else {
						a.disk.Kill()
					}
					rec.Note = "crash in commit"
					hist = append(hist, rec)
					a.open(t, cfg, genesis)
					dump := stateDump(a.stateDB)
					appAhead := false
					switch {
					case diffMaps(dump, staged) == "":
						appAhead = true
						simkit.Probe("crash_after_image")
					case diffMaps(dump, tip().state) == "":
						simkit.Probe("crash_before_image")
					default:
						fail("crash", "atomicity", "after a crash inside Commit the state is neither the before nor the after image:%s", diffMaps(dump, tip().state))
					}
					// the engine never saw the commit: it restarts on its own tip and the application must follow
					if _, err := safeInit(a, tip()); err != nil {
						w := "app-equal"
						if appAhead {
							w = "app-ahead"
						}
						fail("recovery", w, "Init(lastHeight=%d) after a crash in Commit (application ahead=%v) failed: %v", tip().height, appAhead, err)
					}
					checkDB("recovery after crash in commit", tip())
					nontrivial = true
					goto nextOp
				}
				must(cerr, "Commit")
				newRec.root = cres.StateRoot
				_, _ = a.handler.Clear(&labi.ClearRequest{})
				hist = append(hist, rec)
				chain = append(chain, newRec)
				if !bytes.Equal(cres.StateRoot, wantRoot) {
					fail("root", "commit", "committed state root %x differs from the sparse Merkle root %x of the resulting state (deleted keys absent)", []byte(cres.StateRoot), wantRoot)
				}
				checkDB("commit", newRec)
				if len(txs) > 0 {
					nontrivial = true
				}
			}
		case op <= 7: // revert the tip block
			if len(chain) < 2 {
				continue
			}
			cur, prev := chain[len(chain)-1], chain[len(chain)-2]
			res, err := a.handler.InitStateMachine(&labi.InitStateMachineRequest{Header: cur.header})
			must(err, "InitStateMachine(revert)")
			rres, err := a.handler.Revert(&labi.RevertRequest{ContextID: res.ContextID, StateRoot: cur.root, ExpectedStateRoot: nil})
			must(err, "Revert")
			_, _ = a.handler.Clear(&labi.ClearRequest{})
			hist = append(hist, opRec{Op: "revert", Height: cur.height})
			chain = chain[:len(chain)-1]
			if !bytes.Equal(rres.StateRoot, prev.root) {
				fail("revert", "root", "root after reverting height %d is %x, the previous root was %x", cur.height, []byte(rres.StateRoot), prev.root)
			}
			checkDB("revert", prev)
			simkit.Probe("revert")
			nontrivial = true
		default: // restart, engine tip equal to the application's or one block behind (engine crashed before its own commit)
			behind := len(chain) >= 2 && simkit.Bool(t, "behind")
			_ = a.stateDB.VerifClose()
			_ = a.modDB.VerifClose()
			a.disk.Kill()
			a.open(t, cfg, genesis)
			target := tip()
			w := "app-equal"
			if behind {
				target = chain[len(chain)-2]
				w = "app-ahead"
			}
			hist = append(hist, opRec{Op: "restart", Height: target.height, Note: w})
			if _, err := safeInit(a, target); err != nil {
				fail("recovery", w, "Init(lastHeight=%d, application at %d) failed: %v", target.height, tip().height, err)
			}
			if behind {
				chain = chain[:len(chain)-1]
				simkit.Probe("restart_app_ahead")
			}
			checkDB("restart recovery", tip())
			nontrivial = true
		}
	nextOp:
	}
	if nontrivial {
		simkit.Distinct(fmt.Sprintf("%+v", hist))
	}
	simkit.AddSteps(int64(len(hist)))
	simkit.Sample(map[string]interface{}{"history": hist})
	_ = a.stateDB.VerifClose()
	_ = a.modDB.VerifClose()
}

func safeInit(a *app, target *blockRec) (resp *labi.InitResponse, err error) {
	defer func() {
		if r := recover(); r != nil {
			err = fmt.Errorf("panic: %v", r)
		}
	}()
	return a.handler.Init(&labi.InitRequest{ChainID: chainID, LastBlockHeight: target.height, LastStateRoot: target.root})
}

func fmtEvents(evs []*blockchain.Event) string {
	s := "["
	for _, e := range evs {
		s += fmt.Sprintf("%s/%s#%d ", e.Name, string(e.Data), e.Index)
	}
	return s + "]"
}
