package chain

import (
	"fmt"
	"os"
	"testing"
	"time"

	"pgregory.net/rapid"

	"verif/sim/chainsim"
	"verif/sim/simkit"
)

func TestMain(m *testing.M) {
	p := os.Getenv("VERIF_PROP")
	if p == "" {
		p = "C02"
	}
	simkit.Init(p)
	code := m.Run()
	simkit.Flush()
	os.Exit(code)
}

func TestBringup(t *testing.T) {
	rapid.Check(t, func(t *rapid.T) {
		w := chainsim.DrawWorld(t, chainsim.WorldOpts{Nodes: [2]int{3, 3}, Validators: [2]int{4, 5}, StandardThresholds: true})
		w.StartAll()
		w.S.Run(40*w.BlockTime, 100000, nil)
		for _, n := range w.S.Nodes {
			a, b, c := n.Heights()
			fmt.Printf("%s tip=%d prevoted=%d precommitted=%d certified=%d finalized=%d log=%v\n", n.Name, n.Tip().Height, a, b, c, n.Finalized(), n.Log.Tail(3))
		}
		fmt.Println(w.Describe(), w.S.Stats, "steps", w.S.Steps, time.Duration(0))
	})
}
