package chain

import (
	"fmt"
	"sort"
	"testing"
	"time"

	"github.com/LiskHQ/lisk-engine/pkg/generator"
	"pgregory.net/rapid"

	"verif/sim/chainsim"
	"verif/sim/refmodel"
	"verif/sim/simkit"
	"verif/sim/simrt"
)

// ---- C15, second part: "for all sequences of forge / block delete / restart" ---------------------------------------------
//
// A network (partitions, so that its fork tree has branches; one validator of the genesis set has no node and misses
// its slots) produces a tree of valid blocks. Afterwards a node of its own - the walker - holds the key of that one
// validator and is taken through a drawn sequence of
//   - apply a block of the tree on its tip (any child of the tip: the walker changes branches as a failed sync, a
//     restore or an operator would make it, not only as fork choice would),
//   - remove its tip block,
//   - generate: its clock is set to the next slot of its validator after the tip's slot and the generator runs,
//   - restart (graceful or kill).
//
// Oracle: everything the validator's key ever signed - read from the generator database after every generation and
// from the generated blocks themselves - is pairwise non-contradicting by the reference predicate.

func TestC15Walk(t *testing.T) {
	rapid.Check(t, func(t *rapid.T) {
		simkit.AddRun()
		defer simkit.Watch(300*time.Second, "C15 walk run")()
		simkit.Guard(func() { runC15Walk(t) })
	})
}

func runC15Walk(t *rapid.T) {
	opts := chainsim.WorldOpts{Nodes: [2]int{2, 4}, Validators: [2]int{4, 7}, NetFaults: true, SmallCache: true}
	w := chainsim.DrawWorld(t, opts)
	defer w.Shutdown()
	m := chainsim.NewMonitor(w, nil)
	m.Report = reporterFor(t, "C15", w, func() string { return tipsSummary(w) })
	installPanicReporter(w, m)
	// one validator has no node: its key goes to the walker
	var mine *chainsim.Validator
	for _, n := range w.S.Nodes {
		if len(n.Keys) > 0 && !n.IsAdversary {
			mine = n.Keys[len(n.Keys)-1]
			n.Keys = n.Keys[:len(n.Keys)-1]
			break
		}
	}
	if mine == nil {
		return
	}
	w.StartAll()
	blocks := simkit.Int(t, "blocks", 8, 40)
	horizon := time.Duration(blocks) * w.BlockTime
	w.ScheduleFaults(chainsim.FaultPlan{Partitions: true}, horizon)
	w.S.Run(horizon, 400000, nil)
	m.Raise()
	// the tree the network left behind
	children := map[string][]*chainsim.TreeBlock{}
	for _, tb := range m.Tree.ByID {
		if tb.Parent != nil && tb.Block != nil {
			children[tb.Parent.ID] = append(children[tb.Parent.ID], tb)
		}
	}
	for _, l := range children {
		sort.Slice(l, func(i, j int) bool { return l[i].ID < l[j].ID })
	}
	for _, n := range w.S.Nodes {
		if n.Up {
			n.Stop(true, false)
		}
	}
	w.S.Hooks = chainsim.Hooks{}
	wk := w.S.NewDetachedNode("walker")
	wk.Keys = []*chainsim.Validator{mine}
	if err := wk.Start(); err != nil {
		t.Fatalf("infra: start walker: %v", err)
	}
	var signed []refmodel.BFTHeader
	var trace []string
	fail := func(format string, args ...interface{}) {
		simkit.Sample(map[string]interface{}{"world": w.Describe(), "walk": trace})
		simkit.Fail(t, "C15", "self-contradiction", "walk", format+" | walk=%v | %s", append(args, trace, w.Describe())...)
	}
	note := func(h refmodel.BFTHeader, where string) {
		for _, o := range signed {
			if o == h {
				return
			}
		}
		for _, o := range signed {
			if refmodel.Contradicting(o, h) {
				fail("the walker's validator signed (height %d, maxHeightPrevoted %d, maxHeightGenerated %d) [%s], which contradicts its earlier header (height %d, maxHeightPrevoted %d, maxHeightGenerated %d)",
					h.Height, h.MaxHeightPrevoted, h.MaxHeightGenerated, where, o.Height, o.MaxHeightPrevoted, o.MaxHeightGenerated)
			}
		}
		signed = append(signed, h)
	}
	readRecord := func() {
		raw, ok := wk.GeneratorDB.Get(append([]byte{0, 0}, mine.Address...))
		if !ok {
			return
		}
		info := &generator.GeneratorInfo{}
		if err := info.Decode(raw); err != nil {
			return
		}
		note(refmodel.BFTHeader{Height: info.Height, Generator: string(mine.Address), MaxHeightGenerated: info.MaxHeightGenerated, MaxHeightPrevoted: info.MaxHeightPrevoted}, "generator record")
	}
	genesisTs := w.P.Genesis.Header.Timestamp
	bt := uint32(w.BlockTime / time.Second)
	steps := simkit.Int(t, "walk", 5, 60)
	for i := 0; i < steps && wk.Up; i++ {
		tip := wk.Tip()
		switch k := simkit.Int(t, "walkop", 0, 11); {
		case k <= 3: // apply children of the tip: one, or a drawn number along drawn branches
			n := 1
			if k == 3 {
				n = simkit.Int(t, "descend", 2, 10)
			}
			for j := 0; j < n; j++ {
				l := children[string(wk.Tip().ID)]
				if len(l) == 0 {
					break
				}
				c := l[simkit.Int(t, "child", 0, len(l)-1)]
				err := chainsim.ChainOp{Block: c.Block}.Apply(wk)
				trace = append(trace, fmt.Sprintf("add %d/%x mhp=%d err=%v", c.Header.Height, c.Header.ID[:3], c.Header.MaxHeightPrevoted, err != nil))
				if err != nil {
					break
				}
			}
		case k <= 6: // remove the tip: once, or back to a block of the tree with several children (a fork point)
			n := 1
			if k >= 5 {
				n = 15
			}
			for j := 0; j < n; j++ {
				tip := wk.Tip()
				if tip.Height <= wk.Finalized() || tip.Height == w.P.Genesis.Header.Height {
					break
				}
				if j > 0 && len(children[string(tip.ID)]) >= 2 {
					break
				}
				b, err := wk.Chain.DataAccess().GetBlock(tip.ID)
				if err != nil {
					break
				}
				err = chainsim.ChainOp{Delete: true, Block: b, SaveTemp: simkit.Bool(t, "savetemp")}.Apply(wk)
				trace = append(trace, fmt.Sprintf("delete %d/%x err=%v", tip.Height, tip.ID[:3], err != nil))
				if err != nil {
					break
				}
			}
		case k <= 10: // generate in the validator's next slot
			tipSlot := (tip.Timestamp - genesisTs) / bt
			forged := false
			for s := uint32(1); s <= uint32(2*len(w.Vals)+2) && !forged && wk.Up; s++ {
				slotStart := genesisTs + (tipSlot+s)*bt
				want := time.Unix(int64(slotStart), 0).Add(w.BlockTime - time.Second)
				wk.Skew = want.Sub(simrt.C.NowTrue())
				w.S.Step(wk, "walker generates", func() {
					before := wk.Exec.VerifQueueLen()
					wk.Gen.VerifForge()
					forged = wk.Exec.VerifQueueLen() > before
				})
			}
			if forged {
				simkit.Probe("c15_walker_generated")
				nt := wk.Tip()
				trace = append(trace, fmt.Sprintf("forge -> tip %d/%x mhp=%d mhg=%d", nt.Height, nt.ID[:3], nt.MaxHeightPrevoted, nt.MaxHeightGenerated))
				readRecord()
				if string(nt.GeneratorAddress) == string(mine.Address) {
					note(refmodel.BFTHeader{Height: nt.Height, Generator: string(mine.Address), MaxHeightGenerated: nt.MaxHeightGenerated, MaxHeightPrevoted: nt.MaxHeightPrevoted}, "generated block")
				}
			} else {
				trace = append(trace, "forge declined")
				simkit.Probe("c15_walker_generation_declined")
			}
		default: // restart
			wk.Stop(simkit.Bool(t, "graceful"), false)
			if err := wk.Start(); err != nil {
				fail("walker does not start again: %v", err)
			}
			trace = append(trace, "restart")
		}
	}
	simkit.AddSteps(int64(w.S.Steps))
	simkit.Distinct(fmt.Sprint(trace))
	simkit.DetLog("walk %v signed %v", trace, signed)
	simkit.Sample(map[string]interface{}{"world": w.Describe(), "walk": trace})
}
