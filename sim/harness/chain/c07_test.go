package chain

import (
	"testing"
	"time"

	"pgregory.net/rapid"

	"verif/sim/chainsim"
	"verif/sim/simkit"
)

// ---- C07: header contradiction and fork-choice classification follow LIP-0014 ------------------------------------------
//
// The part of C07 that depends on histories and receive times: whole nodes with a Byzantine validator (double forging,
// false maxHeightGenerated, withheld and late blocks), latencies of up to several slots (late tips, tie breaks), clock
// skew, partitions and restarts; chainsim.ForkChoiceMonitor classifies every received block by the reference rule and
// compares the predicate on every header pair the history offers. (Exhaustive enumeration of header pairs over small
// ranges is a pure-function check and not done by this technique, see DESIGN.)

func TestC07(t *testing.T) {
	rapid.Check(t, func(t *rapid.T) {
		simkit.AddRun()
		defer simkit.Watch(300*time.Second, "C07 run")()
		simkit.Guard(func() {
			runHonest(t, runCfg{prop: "C07", opts: chainsim.WorldOpts{Nodes: [2]int{2, 5}, Validators: [2]int{4, 9}, Byzantine: true, ValidatorChanges: true, NetFaults: true, RPCFaults: true, SmallCache: true, StandardThresholds: true},
				faults: chainsim.FaultPlan{Partitions: true, Crashes: true, Skew: true}, blocks: [2]int{15, 100}, forkchoice: true}, nil)
		})
	})
}
