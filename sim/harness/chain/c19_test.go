package chain

import (
	"os"
	"bytes"
	"fmt"
	"testing"
	"time"

	"pgregory.net/rapid"

	"verif/sim/chainsim"
	"verif/sim/simkit"
	"verif/sim/simrt"
)

// ---- C19: sync picks the best peer, serves correct chain segments, converges safely -----------------------------------
//
// Whole nodes under every network fault kind (plus, in drawn runs, a Byzantine validator and phantom peers that
// advertise fabricated tips). The sync oracles of chainsim.SyncMonitor run on every RPC and every node step. After the
// fault phase the network heals, bans expire, the adversary and the phantoms leave, and the run continues fault-free
// for a stated number of block slots: then all honest nodes must be on one chain (bounded liveness once faults stop).

func TestC19(t *testing.T) {
	rapid.Check(t, func(t *rapid.T) {
		simkit.AddRun()
		defer simkit.Watch(300*time.Second, "C19 run")()
		simkit.Guard(func() {
			phantoms := 0
			runHonest(t, runCfg{prop: "C19", opts: chainsim.WorldOpts{Nodes: [2]int{3, 6}, Transactions: true, Validators: [2]int{4, 9}, Byzantine: simkit.Bool(t, "byzantine"), ValidatorChanges: true, NetFaults: true, RPCFaults: true, SmallCache: true, StandardThresholds: true},
				faults: chainsim.FaultPlan{Partitions: true, Crashes: true, Skew: true, LongOutage: true}, blocks: [2]int{15, 90},
				tail: func(w *chainsim.World, m *chainsim.Monitor, adv *chainsim.Adversary) { quietTail(t, w, m, adv) }},
				func(w *chainsim.World, m *chainsim.Monitor) {
					w.SyncMon.StartHandlerProbes(4 * time.Second)
					if simkit.Chance(t, "phantoms", 1, 3) {
						phantoms = simkit.Int(t, "nphantoms", 1, 4)
						w.AddPhantoms(phantoms)
						simkit.FaultN("phantom_peer_advertising_fabricated_tip", phantoms)
					}
				})
		})
	})
}

// quietTail: faults stop; within the budget every honest node that is up must be on the same chain.
func quietTail(t *rapid.T, w *chainsim.World, m *chainsim.Monitor, adv *chainsim.Adversary) {
	s := w.S
	// no new kills from here on (an armed kill waits for a step with enough commits, which may be the catching-up
	// synchronization itself); let the scheduled restarts happen (a node is down for at most 20 block slots, a long
	// outage for 60)
	s.DisarmCrashes()
	s.Run(s.Now()+61*w.BlockTime, 600000, nil)
	s.Heal()
	s.ClearBans()
	s.RemoveExtraPeers()
	s.Net.DropPct, s.Net.DupPct, s.Net.RPCFailPct, s.Net.RPCCorruptPct = 0, 0, 0, 0
	if s.Net.MaxLatency > time.Second {
		s.Net.MaxLatency = time.Second
	}
	if s.Net.MinLatency > s.Net.MaxLatency {
		s.Net.MinLatency = s.Net.MaxLatency
	}
	if adv != nil {
		adv.Enabled = false
		if adv.Stats["oversized_payload"] > 0 {
			// the shadow nodes stand on blocks with an oversized payload, which no honest node takes: a peer that keeps
			// advertising and serving an invalid chain is a fault, and the faults stop here - the Byzantine nodes leave
			for _, n := range adv.Heads {
				if n.Up {
					n.Stop(true, false)
				}
			}
			simkit.Probe("c19_tail_byzantine_nodes_with_invalid_chain_taken_down")
		}
	}
	for _, n := range s.Nodes {
		n.Skew = 0 // clocks are back in sync: a clock that is most of a slot behind keeps rejecting fresh blocks as future blocks
	}
	up := 0
	for _, n := range s.Nodes {
		if n.Up && !n.IsAdversary {
			up++
		}
	}
	if up < 2 {
		simkit.Probe("c19_tail_skipped_fewer_than_two_nodes_up")
		return
	}
	// budget: four rounds of the generator list (fork choice settles within a round once every block reaches
	// everybody; a node that is far behind needs one block to notice and one sync to catch up)
	budget := time.Duration(4*len(w.Vals)+4) * w.BlockTime
	tipsBefore := tipsSummary(w)
	forgedBefore := s.Stats["forged"]
	quietStart := s.Now()
	s.Run(s.Now()+budget, 600000, nil)
	m.Raise()
	if s.Stats["forged"] == forgedBefore {
		// Nobody generated a block in the quiet phase, so nobody was offered anything: the clause under test (a node
		// offered a better chain ends on it) has no instance. This happens when every validator's chain was cut back
		// below blocks it had generated itself (a block sync that removed them on a lying peer's word and then failed,
		// or was killed): the generators then rightly refuse to sign those heights a second time - see DESIGN 10.5.
		simkit.Probe("c19_tail_no_block_generated_no_verdict")
		return
	}
	var ref *chainsim.Node
	minH := ^uint32(0)
	maxH := uint32(0)
	for _, n := range s.Nodes {
		if !n.Up || n.IsAdversary {
			continue
		}
		h := n.Tip().Height
		if h < minH {
			minH, ref = h, n
		}
		if h > maxH {
			maxH = h
		}
	}
	if ref == nil {
		return
	}
	// nodes whose finalized blocks conflict cannot meet again, whatever the sync does: that is a safety failure (C01's
	// business, or a run outside the safety theorem's premises), not a sync failure
	for _, a := range s.Nodes {
		for _, b := range s.Nodes {
			if !a.Up || !b.Up || a.IsAdversary || b.IsAdversary || a.ID >= b.ID {
				continue
			}
			f := a.Finalized()
			if bf := b.Finalized(); bf < f {
				f = bf
			}
			ha, e1 := a.Chain.DataAccess().GetBlockHeaderByHeight(f)
			hb, e2 := b.Chain.DataAccess().GetBlockHeaderByHeight(f)
			if e1 == nil && e2 == nil && !bytes.Equal(ha.ID, hb.ID) {
				simkit.Probe("c19_tail_conflicting_finality_no_verdict")
				return
			}
		}
	}
	// one-sided form of the same: a node cannot leave a block it has finalized (C04), so it never joins a chain that
	// does not contain that block, however good; and the holder of the better chain has no reason to come over. That
	// is what two disjoint quorums of different parameter sets produce (see QuorumsIntersectInHonest): not a sync failure
	for _, a := range s.Nodes {
		for _, b := range s.Nodes {
			if !a.Up || !b.Up || a.IsAdversary || b.IsAdversary || a.ID == b.ID {
				continue
			}
			f := b.Finalized()
			if a.Tip().Height < f {
				continue
			}
			ha, e1 := a.Chain.DataAccess().GetBlockHeaderByHeight(f)
			hb, e2 := b.Chain.DataAccess().GetBlockHeaderByHeight(f)
			if e1 == nil && e2 == nil && !bytes.Equal(ha.ID, hb.ID) {
				simkit.Probe("c19_tail_chain_conflicts_with_a_peers_finalized_block_no_verdict")
				return
			}
		}
	}
	// The clause is about a node that is *offered* a better chain: the chain has to be announced, and chains are
	// announced by their new blocks. When nobody extended the best chain while the network was quiet (its generators
	// refuse to sign heights again after their own chain was cut back, or they are the adversary's), the holders of worse
	// chains never heard of it and discarding each other's worse blocks is what fork choice tells them to do.
	{
		var best *chainsim.TreeBlock
		for _, n := range s.Nodes {
			if !n.Up || n.IsAdversary {
				continue
			}
			tb := m.Tree.ByID[string(n.Tip().ID)]
			if tb == nil {
				continue
			}
			if best == nil || tb.Header.MaxHeightPrevoted > best.Header.MaxHeightPrevoted ||
				(tb.Header.MaxHeightPrevoted == best.Header.MaxHeightPrevoted && tb.Header.Height > best.Header.Height) {
				best = tb
			}
		}
		offered := false
		lo := uint32(simrt.Epoch.Add(quietStart).Unix())
		hi := uint32(simrt.Epoch.Add(quietStart + budget - budget/4).Unix())
		for x := best; x != nil && x.Header.Timestamp >= lo; x = x.Parent {
			if x.Header.Timestamp <= hi {
				offered = true
				break
			}
		}
		if !offered {
			simkit.Probe("c19_tail_best_chain_not_extended_in_the_quiet_phase_no_verdict")
			return
		}
	}
	simkit.Probe("c19_convergence_checked")
	if maxH == minH {
		simkit.Probe("c19_all_tips_at_same_height")
	}
	bad := ""
	if maxH-minH > 2 {
		bad = fmt.Sprintf("tip heights range from %d to %d", minH, maxH)
	}
	at := minH
	if at > 0 {
		at-- // the newest block may still be in flight or in a tie break
	}
	want, err := ref.Chain.DataAccess().GetBlockHeaderByHeight(at)
	if err == nil {
		for _, n := range s.Nodes {
			if !n.Up || n.IsAdversary {
				continue
			}
			h, err := n.Chain.DataAccess().GetBlockHeaderByHeight(at)
			if err != nil || !bytes.Equal(h.ID, want.ID) {
				bad += fmt.Sprintf(" %s and %s disagree on the block at height %d;", ref.Name, n.Name, at)
			}
		}
	}
	if bad != "" {
		// The common-block search of a block sync looks at 3 x 9 heights spaced one round (= the number of current BFT
		// validators) apart below the tip. A fork deeper than that is never found and the sync gives up for good: a
		// limit of the protocol's parameters (with 101 validators: about 2700 blocks), visible here only because a drawn
		// validator set can have one or two members. No verdict on such runs.
		forks := ""
		for _, a := range s.Nodes {
			for _, b := range s.Nodes {
				if !a.Up || !b.Up || a.IsAdversary || b.IsAdversary || a.ID == b.ID {
					continue
				}
				ta, tb := m.Tree.ByID[string(a.Tip().ID)], m.Tree.ByID[string(b.Tip().ID)]
				if ta == nil || tb == nil {
					continue
				}
				x, y := ta, tb
				for x != nil && y != nil && x != y {
					if x.Header.Height >= y.Header.Height {
						x = x.Parent
					} else {
						y = y.Parent
					}
				}
				if x == nil || y == nil {
					continue
				}
				depth := int(a.Tip().Height - x.Header.Height)
				if a.ID < b.ID && x != ta && x != tb {
					forks += fmt.Sprintf(" %s/%s fork after height %d (finalized %d/%d);", a.Name, b.Name, x.Header.Height, a.Finalized(), b.Finalized())
				}
				round := len(ta.BFT.ActiveValidators())
				if depth > 26*round-round {
					simkit.Probe("c19_tail_fork_deeper_than_common_block_search_no_verdict")
					return
				}
			}
		}
		if os.Getenv("VERIF_DUMPCHAINS") != "" {
			for _, n := range s.Nodes {
				if !n.Up {
					continue
				}
				fmt.Fprintf(os.Stderr, "CHAIN %s fin=%d:", n.Name, n.Finalized())
				var l []string
				for x := m.Tree.ByID[string(n.Tip().ID)]; x != nil && x.Header.Height+24 > n.Tip().Height; x = x.Parent {
					gi := -1
					for _, v := range w.Vals {
						if bytes.Equal(v.Address, x.Header.GeneratorAddress) {
							gi = v.Index
						}
					}
					l = append(l, fmt.Sprintf("%d/%x g%d mhg%d mhp%d byz=%v t%d", x.Header.Height, x.Header.ID[:3], gi, x.Header.MaxHeightGenerated, x.Header.MaxHeightPrevoted, x.ByzantineMade, x.Header.Timestamp%100000))
				}
				for i := len(l) - 1; i >= 0; i-- {
					fmt.Fprintf(os.Stderr, " [%s]", l[i])
				}
				fmt.Fprintln(os.Stderr)
			}
			for _, v := range w.Vals {
				isByz := false
				for _, b := range w.Byz {
					isByz = isByz || b.Index == v.Index
				}
				fmt.Fprintf(os.Stderr, "VAL %d byz=%v\n", v.Index, isByz)
			}
		}
		for _, n := range s.Nodes {
			if n.Up && !n.IsAdversary {
				bad += fmt.Sprintf(" [%s log: %v]", n.Name, n.Log.Tail(3))
			}
		}
		m.Report("C19", "convergence", "after-faults-stop", fmt.Sprintf("%d block slots after the last fault (network healed, bans lifted, all RPCs reliable) the honest nodes are not on one chain: %s |%s | at the start of the quiet phase: %s", int(budget/w.BlockTime), bad, forks, tipsBefore))
	}
}
