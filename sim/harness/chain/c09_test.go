package chain

import (
	"testing"
	"time"

	"pgregory.net/rapid"

	"verif/sim/chainsim"
	"verif/sim/simkit"
)

// ---- C09: untrusted input never crashes or hangs the node -------------------------------------------------------------
//
// Whole nodes exchanging real blocks, single commits, transactions-free gossip and sync RPCs, with three sources of
// untrusted input: the hostile peer of chainsim.FuzzPeer (corrupted copies of real payloads and crafted messages into
// every gossip validator/handler and RPC handler), corrupted sync responses (truncation and bit flips at drawn
// positions of what an honest peer answered), and the tampering peer of C03 (well-signed invalid blocks). The oracle
// is the simulator's process model: a panic inside a node step is the death of the process, a step that keeps sending
// requests without end is a hang; both are verdicts with the step's input as witness.

func TestC09(t *testing.T) {
	rapid.Check(t, func(t *rapid.T) {
		simkit.AddRun()
		defer simkit.Watch(300*time.Second, "C09 run")()
		simkit.Guard(func() {
			runHonest(t, runCfg{prop: "C09", opts: chainsim.WorldOpts{Nodes: [2]int{2, 4}, Transactions: true, Validators: [2]int{4, 10}, ValidatorChanges: true, NetFaults: true, RPCFaults: true, SmallCache: true},
				faults: chainsim.FaultPlan{Partitions: true, Crashes: true}, blocks: [2]int{15, 80}, mutants: true, fuzz: 700 * time.Millisecond}, nil)
		})
	})
}
