package chain

import (
	"bytes"
	"fmt"
	"testing"
	"time"

	"github.com/LiskHQ/lisk-engine/pkg/consensus"
	"github.com/LiskHQ/lisk-engine/pkg/db"
	"pgregory.net/rapid"

	"verif/sim/chainsim"
	"verif/sim/simfs"
	"verif/sim/simkit"
)

// ---- C13: block commit and removal are crash-atomic -------------------------------------------------------------------
//
// A simulated network (real nodes, partitions, so that chains fork and blocks are removed again) produces a stream of
// chain operations as seen by one of its nodes: "add block B on the tip" / "remove the tip block". Two further nodes
// outside the network, the victim and its twin, are fed that stream through the executer's own processValidated /
// deleteBlock. The twin never fails: its blockchain database before and after an operation are the before- and
// after-image. The victim's simulated disk is armed to crash at the k-th file-system call from the start of the
// operation (k drawn; the write it dies in may be torn), the process generation dies there with all its goroutines,
// un-synced data is dropped (power loss) or kept (process kill), and a new generation is started on what is left -
// possibly crashing again during recovery. Oracles: the restart succeeds; the victim's database then equals the
// before-image or the after-image, key for key; the tip and BFT heights it reports match that image; and after the
// operation has finally gone through, it equals the after-image.

func TestC13(t *testing.T) {
	rapid.Check(t, func(t *rapid.T) {
		simkit.AddRun()
		defer simkit.Watch(300*time.Second, "C13 run")()
		simkit.Guard(func() { runC13(t) })
	})
}

type c13 struct {
	t      *rapid.T
	w      *chainsim.World
	victim *chainsim.Node
	twin   *chainsim.Node
	queue  []chainsim.ChainOp
	ops    int
}

func runC13(t *rapid.T) {
	if simkit.Chance(t, "network", 1, 4) {
		runC13Network(t)
		return
	}
	opts := chainsim.WorldOpts{Nodes: [2]int{2, 4}, Validators: [2]int{3, 6}, ValidatorChanges: true, NetFaults: true, SmallCache: true}
	w := chainsim.DrawWorld(t, opts)
	defer w.Shutdown()
	c := &c13{t: t, w: w}
	c.victim = w.S.NewDetachedNode("victim")
	c.twin = w.S.NewDetachedNode("twin")
	for _, n := range []*chainsim.Node{c.victim, c.twin} {
		if err := n.Start(); err != nil {
			t.Fatalf("infra: start %s: %v", n.Name, err)
		}
	}
	obs := w.S.Nodes[0]
	obs.OnEventSync = func(n *chainsim.Node, msg interface{}) {
		switch m := msg.(type) {
		case *consensus.EventBlockNewMessage:
			c.queue = append(c.queue, chainsim.ChainOp{Block: m.Block})
		case *consensus.EventBlockDeleteMessage:
			c.queue = append(c.queue, chainsim.ChainOp{Delete: true, Block: m.Block})
		}
	}
	if simkit.Chance(t, "withtransactions", 2, 3) {
		chainsim.NewTxSource(w, time.Duration(simkit.Int(t, "txevery", 800, 4000))*time.Millisecond)
	}
	w.StartAll()
	blocks := simkit.Int(t, "blocks", 6, 60)
	horizon := time.Duration(blocks) * w.BlockTime
	w.ScheduleFaults(chainsim.FaultPlan{Partitions: true}, horizon)
	w.S.Run(horizon, 400000, c.drain)
	statsToSimkit(w)
	simkit.Count("chain_ops", int64(c.ops))
	simkit.DetLog("%s | %s victim=%d/%x", w.Describe(), tipsSummary(w), c.victim.Tip().Height, []byte(c.victim.Tip().ID)[:3])
	simkit.Distinct(w.Describe(), tipsSummary(w))
}

func (c *c13) fail(oracle, witness, format string, args ...interface{}) {
	msg := fmt.Sprintf(format, args...)
	simkit.Sample(map[string]interface{}{"world": c.w.Describe(), "violation": msg})
	simkit.Fail(c.t, "C13", oracle, witness, "%s | %s", msg, c.w.Describe())
}

// appImage is the part of the application's state database that has a meaning: the state entries (prefix 0) and the
// (height, root) record (prefix 3). Tree nodes no root refers to any more and the revert diff of a height that was
// rolled back at start-up stay behind as garbage (the next commit of that height overwrites them); C13 is about the
// blockchain database, so only "the application is at the state of the engine's tip" is required here.
func appImage(d *db.DB) []db.VerifKV {
	var out []db.VerifKV
	for _, kv := range d.VerifDump() {
		if len(kv.K) > 0 && (kv.K[0] == 0 || kv.K[0] == 3) {
			out = append(out, kv)
		}
	}
	return out
}

func heightsOf(n *chainsim.Node) string {
	a, b, cc := n.Heights()
	return fmt.Sprintf("tip=%d/%x prevoted=%d precommitted=%d certified=%d finalized=%d", n.Tip().Height, []byte(n.Tip().ID)[:4], a, b, cc, n.Finalized())
}

func (c *c13) drain() {
	for len(c.queue) > 0 {
		op := c.queue[0]
		c.queue = c.queue[1:]
		op.SaveTemp = simkit.Bool(c.t, "savetemp")
		op.RemoveTemp = simkit.Bool(c.t, "removetemp")
		c.ops++
		c.one(op)
		c.victim.DrainEvents()
		c.twin.DrainEvents()
		// forks are rare in a small network: now and then take the new tip off again and put it back, which are the
		// same two operations a tie break or a chain switch performs
		if !op.Delete && op.Block.Header.Height > c.twin.Finalized() && simkit.Chance(c.t, "offandon", 1, 5) {
			simkit.Probe("synthetic_delete_and_readd")
			for _, del := range []bool{true, false} {
				o2 := chainsim.ChainOp{Delete: del, Block: op.Block, SaveTemp: simkit.Bool(c.t, "savetemp"), RemoveTemp: simkit.Bool(c.t, "removetemp")}
				c.ops++
				c.one(o2)
				c.victim.DrainEvents()
				c.twin.DrainEvents()
			}
		}
	}
}

func (c *c13) one(op chainsim.ChainOp) {
	t := c.t
	kind := "add"
	if op.Delete {
		kind = "delete"
		simkit.Probe("op_delete_block")
	} else {
		simkit.Probe("op_add_block")
	}
	armed := simkit.Chance(t, "armed", 1, 3)
	var d0, d1, s0, s1 []db.VerifKV
	var h0, h1 string
	if armed {
		d0, s0, h0 = c.twin.BlockchainDB.VerifDump(), appImage(c.twin.StateDB), heightsOf(c.twin)
	}
	finBefore := c.twin.Finalized()
	if err := op.Apply(c.twin); err != nil {
		t.Fatalf("infra: the twin could not apply %s which the observer applied: %v (log %v)", op, err, c.twin.Log.Tail(3))
	}
	if c.twin.Finalized() != finBefore {
		simkit.Probe("op_moves_finalized_height")
	}
	if !armed {
		if err := op.Apply(c.victim); err != nil {
			t.Fatalf("infra: the victim could not apply %s: %v", op, err)
		}
		return
	}
	d1, s1, h1 = c.twin.BlockchainDB.VerifDump(), appImage(c.twin.StateDB), heightsOf(c.twin)
	if c.twin.Finalized() != finBefore {
		simkit.Probe("armed_op_moves_finalized_height")
	}
	for attempt := 0; ; attempt++ {
		if attempt >= 3 {
			if err := op.Apply(c.victim); err != nil {
				c.fail("completes", kind, "after crashes that left the before-image, %s fails on the victim: %v", op, err)
			}
			break
		}
		k := simkit.Int(t, "crashop", 1, 5)
		if simkit.Chance(t, "latecrash", 1, 5) {
			k = simkit.Int(t, "crashoplate", 6, 20) // memtable flushes and manifest updates make some operations longer
		}
		tear := []int{-1, 0, 1, 7, 64}[simkit.Int(t, "tear", 0, 4)]
		power := simkit.Bool(t, "powerloss")
		ioerr := simkit.Chance(t, "ioerror", 1, 6)
		if ioerr {
			c.victim.FS.FailIn(k)
		} else {
			c.victim.FS.CrashIn(k, tear)
		}
		crashed, err, pv := op.ApplyCrashable(c.victim)
		if !crashed && c.victim.FS.Disarm() {
			crashed = true // died right after the operation returned (background work of the same generation)
		}
		if pv != nil && !crashed {
			c.fail("panic", kind, "%s panicked on the victim: %v", op, pv)
		}
		if !crashed {
			simkit.Probe("crash_point_beyond_operation")
			if err != nil {
				c.fail("completes", kind, "%s fails on the victim (no crash, I/O error injected: %v): %v", op, ioerr, err)
			}
			break
		}
		what := "crash_in_" + kind
		if ioerr {
			what = "io_error_in_" + kind
		}
		simkit.Fault(what)
		if tear != -1 && !ioerr {
			simkit.Fault("torn_write_armed")
		}
		if power {
			simkit.Fault("power_loss")
		} else {
			simkit.Fault("process_kill")
		}
		c.victim.Stop(false, power)
		c.restart(op, kind, k)
		dk := c.victim.BlockchainDB.VerifDump()
		hk := heightsOf(c.victim)
		diff0, diff1 := chainsim.DumpDiff(d0, dk), chainsim.DumpDiff(d1, dk)
		desc := fmt.Sprintf("crash at file-system call %d of %s (tear %d, power loss %v, I/O error %v)", k, op, tear, power, ioerr)
		switch {
		case diff1 == "":
			simkit.Probe("crash_left_after_image")
			if hk != h1 {
				c.fail("restart-view", kind, "%s: database is the after-image but the restarted node reports %s, the twin %s", desc, hk, h1)
			}
			sk := appImage(c.victim.StateDB)
			if d := chainsim.DumpDiff(s1, sk); d != "" {
				c.fail("application-state", kind, "%s: engine database is the after-image, application state is not: %s", desc, d)
			}
		case diff0 == "":
			simkit.Probe("crash_left_before_image")
			if hk != h0 {
				c.fail("restart-view", kind, "%s: database is the before-image but the restarted node reports %s, the twin reported %s", desc, hk, h0)
			}
			sk := appImage(c.victim.StateDB)
			if d := chainsim.DumpDiff(s0, sk); d != "" {
				c.fail("application-state", kind, "%s: engine database is the before-image, application state is not: %s", desc, d)
			}
			continue
		default:
			c.fail("atomicity", kind, "%s: the database found at restart is neither the before-image (%s) nor the after-image (%s); node reports %s", desc, diff0, diff1, hk)
		}
		break
	}
	if d := chainsim.DumpDiff(d1, c.victim.BlockchainDB.VerifDump()); d != "" {
		c.fail("after-image", kind, "%s went through on the victim but its database differs from the twin's: %s", op, d)
	}
	if !bytes.Equal(c.victim.Tip().ID, c.twin.Tip().ID) {
		c.fail("after-image", kind, "%s went through but victim tip %x != twin tip %x", op, []byte(c.victim.Tip().ID)[:4], []byte(c.twin.Tip().ID)[:4])
	}
}

// restart starts a new process generation of the victim; the recovery itself may be hit by another crash.
func (c *c13) restart(op chainsim.ChainOp, kind string, k int) {
	t := c.t
	for try := 0; try < 4; try++ {
		again := try < 2 && simkit.Chance(t, "crashinrecovery", 1, 5)
		var fs *simfs.FS
		fsCh := make(chan *simfs.FS, 1)
		if again {
			k2 := simkit.Int(t, "recoverycrashop", 1, 25)
			c.victim.OnOpen = func(f *simfs.FS) { f.CrashIn(k2, -1); fsCh <- f }
		} else {
			c.victim.OnOpen = func(f *simfs.FS) { fsCh <- f }
		}
		done := make(chan error, 1)
		go func() {
			defer func() {
				if r := recover(); r != nil {
					done <- fmt.Errorf("panic during start: %v", r)
				}
			}()
			done <- c.victim.Start()
		}()
		fs = <-fsCh
		var err error
		crashed := false
		select {
		case err = <-done:
			if fs.Disarm() {
				crashed = true
			}
		case <-fs.Crashed():
			crashed = true
		}
		c.victim.OnOpen = nil
		if crashed {
			simkit.Fault("crash_during_recovery")
			c.victim.Up = true
			c.victim.Stop(false, simkit.Bool(t, "powerloss2"))
			continue
		}
		if err != nil {
			c.fail("restart", kind, "after a crash at file-system call %d of %s the node does not start again: %v (log: %v)", k, op, err, c.victim.Log.Tail(4))
		}
		return
	}
	t.Fatalf("infra: recovery crashed 4 times")
}

// runC13Network: the crash points inside a running network. The nodes of a whole network (forks, syncs, tie breaks,
// validator changes, transactions) are killed or lose power at the k-th commit of one of their steps, again and again;
// every time one comes back - and for every node at the end - the whole blockchain database must be a union of whole
// steps (Monitor.Integrity) and the consensus state must be the one of the tip (checkBFT, C02's reference).
func runC13Network(t *rapid.T) {
	runHonest(t, runCfg{prop: "C13", opts: chainsim.WorldOpts{Nodes: [2]int{2, 4}, Transactions: true, Validators: [2]int{3, 7}, ValidatorChanges: true, NetFaults: true, RPCFaults: true, SmallCache: true},
		faults: chainsim.FaultPlan{Partitions: true, Crashes: true}, blocks: [2]int{10, 70},
		tail: func(w *chainsim.World, m *chainsim.Monitor, adv *chainsim.Adversary) {
			for _, n := range w.S.Nodes {
				if n.Up && !n.IsAdversary {
					m.Integrity(n, "at-end")
				}
			}
			m.Raise()
		}},
		func(w *chainsim.World, m *chainsim.Monitor) {
			m.Enabled["C02"] = true
			every := time.Duration(simkit.Int(t, "killevery", 3, 12)) * w.BlockTime
			var tick func()
			tick = func() {
				n := w.S.Nodes[simkit.Int(t, "killnode", 0, len(w.S.Nodes)-1)]
				if n.Up && !n.IsAdversary {
					w.KillInsideNextSteps(n, simkit.Int(t, "killcommit", 1, 12), -1, simkit.Bool(t, "killpower"), time.Duration(simkit.Int(t, "killdown", 1, 6))*w.BlockTime)
					simkit.Fault("kill_armed_at_kth_commit_of_a_step")
				}
				w.S.At(every, "c13 kill", tick)
			}
			w.S.At(every, "c13 kill", tick)
		})
}
