package chain

import (
	"testing"
	"time"

	"pgregory.net/rapid"

	"verif/sim/chainsim"
	"verif/sim/simkit"
)

// ---- C03: only fully valid blocks extend the chain; rejected blocks change nothing ----------------------------------------
//
// Whole nodes under network faults; the tampering peer of chainsim.MutantInjector offers nodes single-rule mutants of
// valid successors of their current state (reachable states: after forks, syncs, validator changes, restarts).

func TestC03(t *testing.T) {
	rapid.Check(t, func(t *rapid.T) {
		simkit.AddRun()
		defer simkit.Watch(300*time.Second, "C03 run")()
		simkit.Guard(func() {
			runHonest(t, runCfg{prop: "C03", opts: chainsim.WorldOpts{Nodes: [2]int{2, 4}, Transactions: true, Validators: [2]int{4, 8}, Byzantine: simkit.Bool(t, "byzantine"), ValidatorChanges: true, NetFaults: true, RPCFaults: true, SmallCache: true},
				faults: chainsim.FaultPlan{Partitions: true, Crashes: true, Skew: true}, blocks: [2]int{10, 70}, mutants: true}, nil)
		})
	})
}
