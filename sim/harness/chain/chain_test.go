package chain

import (
	"fmt"
	"os"
	"runtime"
	"sort"
	"strings"
	"testing"
	"time"

	"pgregory.net/rapid"

	"verif/sim/chainsim"
	"verif/sim/simkit"
)

// reporterFor fails the run on verdicts about `prop` and only counts verdicts about other properties (each property
// has its own check; the shared monitors run everywhere so that their reach is measured everywhere).
func reporterFor(t *rapid.T, prop string, w *chainsim.World, extra func() string) chainsim.Reporter {
	return func(property, oracle, witness, message string) {
		if property != prop && property != os.Getenv("VERIF_ALSO") { // VERIF_ALSO: investigation aid, never set by bin/check
			simkit.Probe(fmt.Sprintf("verdict_for_other_property(%s:%s/%s)", property, oracle, witness))
			return
		}
		ctx := w.Describe()
		if extra != nil {
			ctx += " " + extra()
		}
		simkit.Sample(map[string]interface{}{"world": w.Describe(), "violation": message})
		simkit.Fail(t, property, oracle, witness, "%s | %s", message, ctx)
	}
}

func statsToSimkit(w *chainsim.World) {
	keys := make([]string, 0, len(w.S.Stats))
	for k := range w.S.Stats {
		keys = append(keys, k)
	}
	sort.Strings(keys)
	for _, k := range keys {
		switch k {
		case "crash_inside_step", "byz_serving_unlinked_block", "byz_serving_payload_swapped_twin", "byz_lying_common_block", "gossip_topic_blackout", "gossip_dropped", "gossip_duplicated", "gossip_cut", "rpc_timeout", "rpc_error", "rpc_truncated", "rpc_bitflip", "crash", "restart", "partition", "heal", "ban",
			"clock_skew", "clock_jump_backwards", "clock_jump_forwards", "node_stalled", "rpc_to_stalled_node", "gossip_held_for_stalled_node", "node_muted", "gossip_from_muted_node_lost":
			simkit.FaultN(k, w.S.Stats[k])
		default:
			simkit.Count(k, int64(w.S.Stats[k]))
		}
	}
	simkit.AddSteps(int64(w.S.Steps))
	simkit.AddSimSeconds(w.S.Now().Seconds())
}

func tipsSummary(w *chainsim.World) string {
	s := ""
	for _, n := range w.S.Nodes {
		if !n.Up {
			s += fmt.Sprintf("%s:down ", n.Name)
			continue
		}
		a, b, c := n.Heights()
		s += fmt.Sprintf("%s:tip=%d/%x pv=%d pc=%d cert=%d fin=%d ", n.Name, n.Tip().Height, []byte(n.Tip().ID)[:3], a, b, c, n.Finalized())
	}
	return s
}

// ---- C02 ------------------------------------------------------------------------------------------------------------

func TestC02(t *testing.T) {
	rapid.Check(t, func(t *rapid.T) {
		simkit.AddRun()
		defer simkit.Watch(300*time.Second, "C02 run")()
		simkit.Guard(func() { runC02(t) })
	})
}

func runC02(t *rapid.T) {
	faultFree := simkit.Bool(t, "faultfree")
	if !faultFree && simkit.Bool(t, "fullfaults") {
		// the whole fault repertoire of the other chain checks: partitions, crashes (also inside a step), clock skew
		// and jumps, stalls, sync RPC faults, in half of these runs a Byzantine adversary; the counting oracle follows
		// every block every node applies, whatever route it took
		runHonest(t, runCfg{prop: "C02", opts: chainsim.WorldOpts{Nodes: [2]int{2, 5}, Transactions: true, Validators: [2]int{4, 9}, Byzantine: simkit.Bool(t, "byzantine"), ValidatorChanges: true, NetFaults: true, RPCFaults: true, SmallCache: true},
			faults: chainsim.FaultPlan{Partitions: true, Crashes: true, Skew: true}, blocks: [2]int{10, 110},
			tail: func(w *chainsim.World, m *chainsim.Monitor, adv *chainsim.Adversary) { sameTipSameHeights(w, m) }}, nil)
		return
	}
	opts := chainsim.WorldOpts{Nodes: [2]int{2, 5}, Validators: [2]int{4, 9}, ValidatorChanges: true, NetFaults: !faultFree, SmallCache: true}
	w := chainsim.DrawWorld(t, opts)
	defer w.Shutdown()
	m := chainsim.NewMonitor(w, nil)
	m.Report = reporterFor(t, "C02", w, func() string { return tipsSummary(w) })
	installPanicReporter(w, m)
	w.StartAll()
	blocks := simkit.Int(t, "blocks", 10, 120)
	w.S.Run(time.Duration(blocks)*w.BlockTime, 400000, nil)
	m.Raise()
	sameTipSameHeights(w, m)
	// liveness in fault-free round-robin runs: a block is final once enough later blocks exist
	if faultFree {
		checkFaultFreeFinality(t, w, m)
	}
	statsToSimkit(w)
	simkit.DetLog("%s | %s", w.Describe(), tipsSummary(w))
	simkit.Distinct(w.Describe(), tipsSummary(w))
	simkit.Sample(map[string]interface{}{"world": w.Describe(), "end": tipsSummary(w), "fault_free": faultFree})
}

// sameTipSameHeights: every view with the same tip reports the same heights.
func sameTipSameHeights(w *chainsim.World, m *chainsim.Monitor) {
	byTip := map[string]*chainsim.Node{}
	for _, n := range w.S.Nodes {
		if !n.Up {
			continue
		}
		id := string(n.Tip().ID)
		if o, ok := byTip[id]; ok {
			a1, b1, c1 := n.Heights()
			a2, b2, c2 := o.Heights()
			if a1 != a2 || b1 != b2 || c1 != c2 {
				m.Report("C02", "agreement", "heights", fmt.Sprintf("%s and %s have the same tip but report heights (%d,%d,%d) and (%d,%d,%d)", n.Name, o.Name, a1, b1, c1, a2, b2, c2))
			}
			simkit.Probe("same_tip_heights_compared")
		} else {
			byTip[id] = n
		}
	}
	m.Raise()
}

// In a fault-free run every slot is filled by its generator on one chain. A block at height h is final once the
// later blocks carry the prevote threshold and then the precommit threshold of weight: with the generators taking
// turns, that is at most (validators needed for the prevote quorum) + (validators needed for the precommit quorum)
// blocks, each counted over distinct generators in slot order. The bound asserted here is deliberately loose: two
// full rounds of the generator list plus the vote window start-up.
func checkFaultFreeFinality(t *rapid.T, w *chainsim.World, m *chainsim.Monitor) {
	n := w.S.Nodes[0]
	gh := w.P.GenesisHeight
	tip := n.Tip().Height - gh
	_, prec, _ := n.Heights()
	prec -= gh
	rounds := uint32(2*len(w.Vals) + 2)
	if len(w.P.Module.Changes) > 0 {
		return // the bound is stated for a constant validator set
	}
	if tip > rounds && prec+rounds < tip {
		m.Report("C02", "liveness", "fault-free", fmt.Sprintf("fault-free round-robin run: tip %d but the precommitted height is only %d (more than two rounds of %d generators behind)", tip, prec, len(w.Vals)))
	}
	if tip > rounds {
		simkit.Probe("fault_free_finality_checked")
	}
}

// installPanicReporter turns a node step that panicked or spun without end into verdicts: a panic or hang caused by
// something a peer sent is C09's business; a sync download that never ends is also a C19 failure to converge.
func installPanicReporter(w *chainsim.World, m *chainsim.Monitor) {
	w.S.NodePanic = func(n *chainsim.Node, what string, v interface{}) {
		if l, ok := v.(chainsim.Livelock); ok {
			msg := fmt.Sprintf("%s never finished processing (%s): more than 3000 %s requests to %s inside one step - the download loop does not terminate when the peer stops returning the expected blocks", n.Name, what, l.Procedure, l.To)
			m.Report("C19", "sync-terminates", "download-loop", msg)
			m.Report("C09", "hang", "download-loop", msg)
			return
		}
		buf := make([]byte, 6000)
		buf = buf[:runtime.Stack(buf, false)]
		msg := fmt.Sprintf("%s panicked while handling %q: %v\n%s", n.Name, what, v, buf)
		m.Report("C09", "panic", panicSite(string(buf)), msg)
		m.Report("C03", "panic", panicSite(string(buf)), msg)
		if strings.Contains(panicSite(string(buf)), "pkg/consensus/sync.") {
			// the process died inside the synchronization: whatever chain it was offered, it does not end on it
			m.Report("C19", "sync-crashed", panicSite(string(buf)), msg)
		}
	}
}

// panicSite extracts the innermost repository frame of a stack for the witness key.
func panicSite(stack string) string {
	for _, ln := range strings.Split(stack, "\n") {
		if i := strings.Index(ln, "github.com/LiskHQ/lisk-engine/pkg/"); i >= 0 && !strings.Contains(ln, "zz_verif") {
			f := ln[i+len("github.com/LiskHQ/lisk-engine/"):]
			if j := strings.Index(f, "("); j > 0 && strings.HasSuffix(strings.TrimSpace(f), ")") {
				f = f[:strings.LastIndex(f, "(")]
			}
			return strings.ReplaceAll(strings.TrimSpace(f), " ", "")
		}
	}
	return "unknown"
}

// ---- shared runner for the honest-network properties ---------------------------------------------------------------

type runCfg struct {
	prop       string
	opts       chainsim.WorldOpts
	faults     chainsim.FaultPlan
	blocks     [2]int
	mutants    bool
	forkchoice bool
	fuzz       time.Duration // interval of the hostile peer's messages (0: none)
	certs      time.Duration // interval of certificate probes (0: the certificate monitor is not installed)
	tail       func(w *chainsim.World, m *chainsim.Monitor, adv *chainsim.Adversary)
}

func runHonest(t *rapid.T, c runCfg, extra func(w *chainsim.World, m *chainsim.Monitor)) {
	w := chainsim.DrawWorld(t, c.opts)
	defer w.Shutdown()
	var adv *chainsim.Adversary
	if len(w.Byz) > 0 {
		adv = w.AddAdversary()
	}
	if adv != nil {
		adv.SyncTwins = c.prop == "C03" || simkit.Bool(t, "synctwins")
	}
	m := chainsim.NewMonitor(w, nil)
	m.Report = reporterFor(t, c.prop, w, func() string {
		if adv != nil {
			return tipsSummary(w) + adv.String()
		}
		return tipsSummary(w)
	})
	installPanicReporter(w, m)
	// the delete oracle keeps a full database dump per unfinalized block and node: only in the run of its own property
	m.Enabled["C05"] = c.prop == "C05"
	w.SyncMon = chainsim.NewSyncMonitor(w, m.Report) // the sync oracles (C19) ride along in every run
	if c.mutants {
		chainsim.NewMutantInjector(w, m, m.Report)
	}
	if c.forkchoice {
		fm := chainsim.NewForkChoiceMonitor(w, m, m.Report)
		w.S.OnAdversaryBlock = fm.OnByzantineBlock
		fm.StartProbes(3 * time.Second)
	}
	if c.opts.Transactions && (c.prop == "C15" || simkit.Bool(t, "withtransactions")) {
		chainsim.NewTxSource(w, time.Duration(simkit.Int(t, "txevery", 800, 4000))*time.Millisecond)
		if adv != nil {
			// payload rules of C03: oversized payloads and statically invalid transactions in otherwise valid blocks
			adv.PayloadAttacks = c.prop == "C03" || simkit.Bool(t, "payloadattacks")
		}
	}
	if c.fuzz > 0 {
		chainsim.NewFuzzPeer(w, m, c.fuzz)
	}
	if c.certs > 0 {
		chainsim.NewCertMonitor(w, m, m.Report, c.certs)
	}
	if !w.QuorumsIntersectInHonest() {
		m.OutsideTheorem = true
		simkit.Probe("quorum_intersection_premise_fails")
	} else {
		simkit.Probe("quorum_intersection_premise_holds")
	}
	w.StartAll()
	blocks := simkit.Int(t, "blocks", c.blocks[0], c.blocks[1])
	horizon := time.Duration(blocks) * w.BlockTime
	// swarm: each run enables a drawn subset of the fault kinds the property allows
	plan := chainsim.FaultPlan{Partitions: c.faults.Partitions && simkit.Bool(t, "usepartitions"), Crashes: c.faults.Crashes && simkit.Bool(t, "usecrashes"), Skew: c.faults.Skew && simkit.Bool(t, "useskew"), LongOutage: c.faults.LongOutage,
		Jumps: c.faults.Skew && simkit.Chance(t, "usejumps", 1, 3), Stalls: c.faults.Crashes && simkit.Chance(t, "usestalls", 1, 3)}
	w.ScheduleFaults(plan, horizon)
	if extra != nil {
		extra(w, m)
	}
	w.S.Run(horizon, 600000, nil)
	m.Raise()
	if c.tail != nil {
		c.tail(w, m, adv)
	}
	statsToSimkit(w)
	simkit.DetLog("%s | %s", w.Describe(), tipsSummary(w))
	simkit.Distinct(w.Describe(), tipsSummary(w))
	simkit.Sample(map[string]interface{}{"world": w.Describe(), "end": tipsSummary(w), "faults": fmt.Sprintf("%+v", plan), "stats": w.S.Stats})
}

func TestC04(t *testing.T) {
	rapid.Check(t, func(t *rapid.T) {
		simkit.AddRun()
		defer simkit.Watch(300*time.Second, "C04 run")()
		simkit.Guard(func() {
			runHonest(t, runCfg{prop: "C04", opts: chainsim.WorldOpts{Nodes: [2]int{2, 5}, Transactions: true, Validators: [2]int{4, 8}, Byzantine: true, ValidatorChanges: true, NetFaults: true, RPCFaults: true, SmallCache: true, StandardThresholds: true},
				faults: chainsim.FaultPlan{Partitions: true, Crashes: true, Skew: true}, blocks: [2]int{15, 110}}, nil)
		})
	})
}

func TestC05(t *testing.T) {
	rapid.Check(t, func(t *rapid.T) {
		simkit.AddRun()
		defer simkit.Watch(300*time.Second, "C05 run")()
		simkit.Guard(func() {
			runHonest(t, runCfg{prop: "C05", opts: chainsim.WorldOpts{Nodes: [2]int{3, 5}, Transactions: true, Validators: [2]int{4, 8}, ValidatorChanges: true, NetFaults: true, RPCFaults: true, SmallCache: true},
				faults: chainsim.FaultPlan{Partitions: true, Crashes: true, Skew: true}, blocks: [2]int{15, 90}}, nil)
		})
	})
}

func TestC01(t *testing.T) {
	rapid.Check(t, func(t *rapid.T) {
		simkit.AddRun()
		defer simkit.Watch(300*time.Second, "C01 run")()
		simkit.Guard(func() {
			runHonest(t, runCfg{prop: "C01", opts: chainsim.WorldOpts{Nodes: [2]int{2, 5}, Transactions: true, Validators: [2]int{4, 9}, Byzantine: true, ValidatorChanges: true, NetFaults: true, RPCFaults: true, SmallCache: true, StandardThresholds: true},
				faults: chainsim.FaultPlan{Partitions: true, Crashes: true, Skew: true}, blocks: [2]int{15, 110}}, nil)
		})
	})
}

func TestC15(t *testing.T) {
	rapid.Check(t, func(t *rapid.T) {
		simkit.AddRun()
		defer simkit.Watch(300*time.Second, "C15 run")()
		simkit.Guard(func() {
			runHonest(t, runCfg{prop: "C15", opts: chainsim.WorldOpts{Nodes: [2]int{2, 5}, Validators: [2]int{4, 9}, Byzantine: true, ValidatorChanges: true, NetFaults: true, RPCFaults: true, SmallCache: true, Transactions: true},
				faults: chainsim.FaultPlan{Partitions: true, Crashes: true, Skew: true}, blocks: [2]int{10, 90}}, nil)
		})
	})
}
