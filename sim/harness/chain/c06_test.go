package chain

import (
	"testing"
	"time"

	"github.com/LiskHQ/lisk-engine/pkg/consensus"
	"pgregory.net/rapid"

	"verif/sim/chainsim"
	"verif/sim/simkit"
)

// ---- C06: certificates: aggregate commits are sound, bounded and self-consistent ----------------------------------------
//
// Whole nodes producing, gossiping, pooling and aggregating single commits on chains long enough to leave the first
// 100 heights (runs of 20-260 blocks), with validator changes (the next-parameter bound), drawn certificate
// thresholds, network faults and restarts; chainsim.CertMonitor adds the certificate forger and the oracles.

func TestC06(t *testing.T) {
	rapid.Check(t, func(t *rapid.T) {
		simkit.AddRun()
		defer simkit.Watch(400*time.Second, "C06 run")()
		simkit.Guard(func() {
			blocks := [2]int{20, 110}
			long := simkit.Chance(t, "longchain", 1, 2)
			if long {
				blocks = [2]int{120, 260}
			}
			runHonest(t, runCfg{prop: "C06", opts: chainsim.WorldOpts{Nodes: [2]int{2, 4}, Validators: [2]int{3, 10}, ValidatorChanges: true, NetFaults: true, SmallCache: true},
				faults: chainsim.FaultPlan{Partitions: true, Crashes: true}, blocks: blocks, certs: 7 * time.Second},
				func(w *chainsim.World, m *chainsim.Monitor) {
					// fault: for a long stretch no single-commit gossip gets through, so certification falls more than
					// 100 blocks behind finality and catches up afterwards (the pool's re-gossip and clean-up paths)
					if long && simkit.Bool(t, "commitblackout") {
						w.S.TopicBlackout[consensus.P2PEventPostSingleCommits] = true
						end := time.Duration(simkit.Int(t, "blackoutblocks", 105, 180)) * w.BlockTime
						w.S.At(end, "commit gossip blackout ends", func() { delete(w.S.TopicBlackout, consensus.P2PEventPostSingleCommits) })
						simkit.Fault("single_commit_gossip_blackout")
					}
				})
		})
	})
}
