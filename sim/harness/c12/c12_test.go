// C12: staged state store reads equal the database with staged writes applied (seqsim).
package c12

import (
	"bytes"
	"fmt"
	"os"
	"sort"
	"testing"
	"time"

	"pgregory.net/rapid"

	"github.com/LiskHQ/lisk-engine/pkg/db"
	"github.com/LiskHQ/lisk-engine/pkg/db/diffdb"

	"verif/sim/simfs"
	"verif/sim/simkit"
)

const prop = "C12"

func TestMain(m *testing.M) {
	simkit.Init(prop)
	code := m.Run()
	simkit.Flush()
	os.Exit(code)
}

// ---- reference model (DESIGN A.6) ------------------------------------------------------------------------

type ov struct {
	val []byte
	del bool
}

type model struct {
	m map[string][]byte // database
	o map[string]ov     // staged overlay (full keys)
}

func (md *model) cloneO() map[string]ov {
	c := make(map[string]ov, len(md.o))
	for k, v := range md.o {
		c[k] = v
	}
	return c
}

func applied(m map[string][]byte, o map[string]ov) map[string][]byte {
	r := make(map[string][]byte, len(m)+len(o))
	for k, v := range m {
		r[k] = v
	}
	for k, v := range o {
		if v.del {
			delete(r, k)
		} else {
			r[k] = v.val
		}
	}
	return r
}

type kv struct{ k, v []byte }

func sortedKVs(m map[string][]byte) []kv {
	out := make([]kv, 0, len(m))
	for k, v := range m {
		out = append(out, kv{[]byte(k), v})
	}
	sort.Slice(out, func(i, j int) bool { return bytes.Compare(out[i].k, out[j].k) < 0 })
	return out
}

// rangeOf: keys K of m with lo <= K <= hi, in order (reversed if rev), first limit (all if -1), keys stripped of strip bytes.
func rangeOf(m map[string][]byte, lo, hi []byte, limit int, rev bool, strip int) []kv {
	var out []kv
	for _, e := range sortedKVs(m) {
		if bytes.Compare(e.k, lo) >= 0 && bytes.Compare(e.k, hi) <= 0 {
			out = append(out, kv{e.k[strip:], e.v})
		}
	}
	return cut(out, limit, rev)
}

func prefixOf(m map[string][]byte, pre []byte, limit int, rev bool, strip int) []kv {
	var out []kv
	for _, e := range sortedKVs(m) {
		if bytes.HasPrefix(e.k, pre) {
			out = append(out, kv{e.k[strip:], e.v})
		}
	}
	return cut(out, limit, rev)
}

func cut(out []kv, limit int, rev bool) []kv {
	if rev {
		for i, j := 0, len(out)-1; i < j; i, j = i+1, j-1 {
			out[i], out[j] = out[j], out[i]
		}
	}
	if limit >= 0 && len(out) > limit {
		out = out[:limit]
	}
	return out
}

func sameKVs(got []db.KeyValue, want []kv) string {
	if len(got) != len(want) {
		return fmt.Sprintf("got %d entries %s, want %d entries %s", len(got), fmtGot(got), len(want), fmtKV(want))
	}
	for i := range got {
		if !bytes.Equal(got[i].Key(), want[i].k) || !bytes.Equal(got[i].Value(), want[i].v) {
			return fmt.Sprintf("entry %d: got %s, want %s", i, fmtGot(got), fmtKV(want))
		}
	}
	return ""
}

func fmtGot(g []db.KeyValue) string {
	s := "["
	for _, e := range g {
		s += fmt.Sprintf("%x=%x ", e.Key(), e.Value())
	}
	return s + "]"
}
func fmtKV(g []kv) string {
	s := "["
	for _, e := range g {
		s += fmt.Sprintf("%x=%x ", e.k, e.v)
	}
	return s + "]"
}

// ---- generators ------------------------------------------------------------------------------------------

var alphabet = []byte{0x00, 0x01, 0x41, 0x42, 0xfe, 0xff}

func genSuffix(t *rapid.T, label string, maxLen int) []byte {
	n := simkit.Int(t, label+".n", 0, maxLen)
	b := make([]byte, n)
	for i := range b {
		b[i] = alphabet[simkit.Int(t, label+".b", 0, len(alphabet)-1)]
	}
	return b
}

type view struct {
	d      *diffdb.Database
	prefix []byte // full prefix including root
	snaps  map[int]map[string]ov
	name   string
}

var rootPrefix = []byte{0x0a}

func cat(a ...[]byte) []byte { return bytes.Join(a, nil) }

func TestC12(t *testing.T) {
	rapid.Check(t, func(t *rapid.T) {
		simkit.AddRun()
		defer simkit.Watch(60*time.Second, "C12 run")()
		simkit.Guard(func() { runC12(t) })
	})
}

type opRec struct {
	Op   string `json:"op"`
	View string `json:"view,omitempty"`
	A    string `json:"a,omitempty"`
	B    string `json:"b,omitempty"`
	N    int    `json:"n,omitempty"`
	Rev  bool   `json:"rev,omitempty"`
}

func runC12(t *rapid.T) {
	disk := simfs.NewDisk()
	var fs *simfs.FS
	if err := disk.MkdirDurable("/data/x.db"); err != nil {
		t.Fatalf("infra: %v", err)
	}
	fs = disk.Open()
	knobs := db.VerifOpts{Fatal: func(msg string) { fs.Die("pebble fatal: " + msg) }}
	if simkit.Bool(t, "smallmem") {
		knobs.MemTableSize = 64 << 10
	}
	database, err := db.NewDBWithFS("/data/x.db", fs, knobs)
	if err != nil {
		t.Fatalf("infra: open: %v", err)
	}
	md := &model{m: map[string][]byte{}, o: map[string]ov{}}
	valCtr := 0
	newVal := func() []byte {
		valCtr++
		if simkit.Chance(t, "emptyval", 1, 8) {
			return []byte{} // a stored empty value is a value, not an absence
		}
		return []byte(fmt.Sprintf("v%d", valCtr))
	}
	// a small pool of relative keys per run, so that operations keep hitting the same keys
	nPool := simkit.Int(t, "npool", 2, 8)
	keyPool := make([][]byte, nPool)
	for i := range keyPool {
		keyPool[i] = genSuffix(t, "pool", 3)
	}
	poolKey := func(label string) []byte {
		if simkit.Chance(t, label+".fresh", 1, 6) {
			return genSuffix(t, label, 3)
		}
		return keyPool[simkit.Int(t, label+".pool", 0, nPool-1)]
	}
	var hist []opRec

	// view prefixes (relative to root)
	vp := [][]byte{{}, {0x41}, {0x41, 0x42}, {0x42}}
	// initial content, inside and outside the root prefix
	nInit := simkit.Int(t, "ninit", 0, 16)
	for i := 0; i < nInit; i++ {
		var k []byte
		switch simkit.Int(t, "initwhere", 0, 5) {
		case 0:
			k = cat([]byte{0x09}, genSuffix(t, "ik", 2))
		case 1:
			k = cat([]byte{0x0b}, genSuffix(t, "ik", 2))
		default:
			k = cat(rootPrefix, vp[simkit.Int(t, "ivp", 0, len(vp)-1)], poolKey("ik"))
		}
		v := newVal()
		database.Set(k, v)
		md.m[string(k)] = v
	}
	root := diffdb.New(database, rootPrefix)
	views := []*view{{d: root, prefix: rootPrefix, snaps: map[int]map[string]ov{}, name: "root"}}
	snapCount := map[*view]int{}

	check := func(oracle, witness, format string, args ...interface{}) {
		simkit.Sample(map[string]interface{}{"history": hist})
		simkit.Fail(t, prop, oracle, witness, format+" | history=%+v", append(args, hist)...)
	}

	nOps := simkit.Int(t, "nops", 1, 40)
	nontrivial := false
	// swarm: each run draws its own operation mix (weight 0 switches an operation kind off)
	opKinds := []int{0, 1, 3, 4, 6, 9, 10, 11, 12, 13}
	weights := make([]int, len(opKinds))
	total := 0
	for i := range weights {
		weights[i] = []int{0, 1, 1, 3}[simkit.Int(t, "w", 0, 3)]
		total += weights[i]
	}
	if total == 0 {
		weights[1], total = 1, 1
	}
	drawOp := func() int {
		r := simkit.Int(t, "op", 0, total-1)
		for i, w := range weights {
			if r < w {
				return opKinds[i]
			}
			r -= w
		}
		return opKinds[0]
	}
	for i := 0; i < nOps; i++ {
		v := views[simkit.Int(t, "view", 0, len(views)-1)]
		rel := func(label string) []byte {
			// a key relative to the view; biased to collide with other views' keys
			return poolKey(label)
		}
		switch op := drawOp(); op {
		case 0: // new view
			if len(views) < 4 {
				parent := v
				p := vp[simkit.Int(t, "nvp", 1, len(vp)-1)]
				nv := &view{d: parent.d.WithPrefix(p), prefix: cat(parent.prefix, p), snaps: map[int]map[string]ov{}, name: fmt.Sprintf("%s+%x", parent.name, p)}
				views = append(views, nv)
				hist = append(hist, opRec{Op: "withprefix", View: parent.name, A: fmt.Sprintf("%x", p)})
			}
		case 1, 2: // set
			k := rel("k")
			val := newVal()
			v.d.Set(k, val)
			md.o[string(cat(v.prefix, k))] = ov{val: val}
			hist = append(hist, opRec{Op: "set", View: v.name, A: fmt.Sprintf("%x", k), B: string(val)})
		case 3: // del
			k := rel("k")
			v.d.Del(k)
			full := string(cat(v.prefix, k))
			if _, inDB := md.m[full]; inDB {
				md.o[full] = ov{del: true}
			} else {
				delete(md.o, full)
			}
			hist = append(hist, opRec{Op: "del", View: v.name, A: fmt.Sprintf("%x", k)})
			nontrivial = true
		case 4, 5: // get / has
			k := rel("k")
			got, ok := v.d.Get(k)
			want, wok := applied(md.m, md.o)[string(cat(v.prefix, k))]
			hist = append(hist, opRec{Op: "get", View: v.name, A: fmt.Sprintf("%x", k)})
			if ok != wok || (ok && !bytes.Equal(got, want)) {
				check("get", "value", "Get(%x) via %s = (%x,%v), model (%x,%v)", k, v.name, got, ok, want, wok)
			}
			if has := v.d.Has(k); has != wok {
				check("has", "value", "Has(%x) via %s = %v, model %v", k, v.name, has, wok)
			}
		case 6, 7, 8: // range
			a, b := rel("a"), rel("b")
			if simkit.Chance(t, "sameab", 1, 6) {
				b = a
			}
			if len(a) == 0 && len(b) == 0 { // both empty is only the key equal to the prefix; keep but rarely interesting
				b = []byte{0xff, 0xff, 0xff}
			}
			limit := []int{-1, -1, 1, 2, 3}[simkit.Int(t, "limit", 0, 4)]
			rev := simkit.Bool(t, "rev")
			got := v.d.Range(a, b, limit, rev)
			want := rangeOf(applied(md.m, md.o), cat(v.prefix, a), cat(v.prefix, b), limit, rev, len(v.prefix))
			hist = append(hist, opRec{Op: "range", View: v.name, A: fmt.Sprintf("%x", a), B: fmt.Sprintf("%x", b), N: limit, Rev: rev})
			if d := sameKVs(got, want); d != "" {
				w := "fwd"
				if rev {
					w = "rev"
				}
				if limit >= 0 {
					w += "-limit"
				}
				check("range", w, "Range(%x,%x,%d,%v) via %s: %s", a, b, limit, rev, v.name, d)
			}
			if len(want) > 0 {
				nontrivial = true
			}
		case 9: // iterate
			p := genSuffix(t, "p", 2)
			limit := []int{-1, -1, 1, 2}[simkit.Int(t, "limit", 0, 3)]
			rev := simkit.Bool(t, "rev")
			got := v.d.Iterate(p, limit, rev)
			want := prefixOf(applied(md.m, md.o), cat(v.prefix, p), limit, rev, len(v.prefix))
			hist = append(hist, opRec{Op: "iterate", View: v.name, A: fmt.Sprintf("%x", p), N: limit, Rev: rev})
			if d := sameKVs(got, want); d != "" {
				w := "fwd"
				if rev {
					w = "rev"
				}
				if limit >= 0 {
					w += "-limit"
				}
				check("iterate", w, "Iterate(%x,%d,%v) via %s: %s", p, limit, rev, v.name, d)
			}
		case 10: // snapshot
			id := v.d.Snapshot()
			v.snaps[id] = md.cloneO()
			snapCount[v]++
			hist = append(hist, opRec{Op: "snapshot", View: v.name, N: id})
		case 11: // restore / delete snapshot
			if len(v.snaps) > 0 {
				ids := make([]int, 0, len(v.snaps))
				for id := range v.snaps {
					ids = append(ids, id)
				}
				sort.Ints(ids)
				id := ids[simkit.Int(t, "snapid", 0, len(ids)-1)]
				if simkit.Chance(t, "delsnap", 1, 4) {
					v.d.DeleteSnapshot(id)
					delete(v.snaps, id)
					hist = append(hist, opRec{Op: "deletesnapshot", View: v.name, N: id})
				} else {
					if err := v.d.RestoreSnapshot(id); err != nil {
						check("snapshot", "restore-error", "RestoreSnapshot(%d) via %s: %v", id, v.name, err)
					}
					md.o = v.snaps[id]
					delete(v.snaps, id)
					hist = append(hist, opRec{Op: "restore", View: v.name, N: id})
					simkit.Probe("restore")
					nontrivial = true
				}
			}
		case 12: // direct database scans
			a, b := cat(rootPrefix, genSuffix(t, "da", 3)), cat(rootPrefix, genSuffix(t, "db", 3))
			limit := []int{-1, 1, 2}[simkit.Int(t, "limit", 0, 2)]
			rev := simkit.Bool(t, "rev")
			got := database.IterateRange(a, b, limit, rev)
			want := rangeOf(md.m, a, b, limit, rev, 0)
			hist = append(hist, opRec{Op: "db.range", A: fmt.Sprintf("%x", a), B: fmt.Sprintf("%x", b), N: limit, Rev: rev})
			if d := sameKVs(got, want); d != "" {
				w := "fwd"
				if rev {
					w = "rev"
				}
				check("db.range", w, "db.IterateRange(%x,%x,%d,%v): %s", a, b, limit, rev, d)
			}
			p := cat(rootPrefix, genSuffix(t, "dp", 2))
			if simkit.Chance(t, "allff", 1, 8) {
				p = []byte{0xff}
			}
			got = database.Iterate(p, limit, rev)
			want = prefixOf(md.m, p, limit, rev, 0)
			if d := sameKVs(got, want); d != "" {
				check("db.iterate", "any", "db.Iterate(%x,%d,%v): %s", p, limit, rev, d)
			}
			keys := database.IterateKey(p, limit, rev)
			if len(keys) != len(want) {
				check("db.iteratekey", "any", "db.IterateKey(%x,%d,%v): got %d keys want %d", p, limit, rev, len(keys), len(want))
			}
			for i := range keys {
				if i < len(want) && !bytes.Equal(keys[i], want[i].k) {
					check("db.iteratekey", "any", "db.IterateKey(%x,%d,%v): key %d = %x want %x", p, limit, rev, i, keys[i], want[i].k)
				}
			}
		case 13: // commit (+ optional crash) then optionally revert; afterwards a fresh staged store
			before := md.m
			after := applied(md.m, md.o)
			batch := database.NewBatch()
			diff := v.d.Commit(batch)
			hist = append(hist, opRec{Op: "commit", View: v.name})
			crash := simkit.Chance(t, "crash", 1, 4)
			crashed := false
			if crash {
				k := simkit.Int(t, "crashop", 1, 4)
				power := simkit.Bool(t, "power")
				tear := simkit.Int(t, "tear", -1, 40)
				fs.CrashIn(k, tear)
				var pv interface{}
				crashed, pv = simfs.RunCrashable(fs, func() { database.Write(batch) })
				if pv != nil {
					check("crash", "panic", "database.Write panicked without a crash: %v", pv)
				}
				if !crashed && fs.Disarm() {
					crashed = true // the process died right after the write returned
				}
				if crashed {
					simkit.Fault("crash_in_batch_write")
					if power {
						disk.PowerLoss()
						simkit.Fault("power_loss")
					} else {
						disk.Kill()
					}
					fs = disk.Open()
					database, err = db.NewDBWithFS("/data/x.db", fs, knobs)
					if err != nil {
						check("crash", "reopen", "reopen after crash failed: %v", err)
					}
					dump := dumpMap(database)
					switch {
					case equalMaps(dump, after):
						md.m = after
						simkit.Probe("crash_after_image")
					case equalMaps(dump, before):
						simkit.Probe("crash_before_image")
					default:
						check("crash", "atomicity", "after crash in batch write the DB is neither the before nor the after image: %s", fmtKV(sortedKVs(dump)))
					}
					hist = append(hist, opRec{Op: "crash+reopen", N: k})
				}
			} else {
				database.Write(batch)
			}
			if !crashed {
				md.m = after
				if d := dumpMap(database); !equalMaps(d, after) {
					check("commit", "state", "after commit the DB differs from the model: got %s want %s", fmtKV(sortedKVs(d)), fmtKV(sortedKVs(after)))
				}
				if simkit.Chance(t, "revert", 1, 3) {
					// through the codec, as the engine stores it
					enc := diff.Encode()
					dec := &diffdb.Diff{}
					if err := dec.Decode(enc); err != nil {
						check("revert", "codec", "diff does not decode: %v", err)
					}
					b2 := database.NewBatch()
					diffdb.New(database, rootPrefix).RevertDiff(b2, dec)
					database.Write(b2)
					md.m = before
					hist = append(hist, opRec{Op: "revert"})
					if d := dumpMap(database); !equalMaps(d, before) {
						check("revert", "state", "after RevertDiff the DB differs from the pre-commit contents: got %s want %s", fmtKV(sortedKVs(d)), fmtKV(sortedKVs(before)))
					}
					simkit.Probe("revert")
				}
			}
			md.o = map[string]ov{}
			root = diffdb.New(database, rootPrefix)
			views = []*view{{d: root, prefix: rootPrefix, snaps: map[int]map[string]ov{}, name: "root"}}
			nontrivial = true
		}
	}
	if nontrivial {
		simkit.Distinct(fmt.Sprintf("%+v", hist))
	}
	simkit.AddSteps(int64(len(hist)))
	simkit.Sample(map[string]interface{}{"history": hist})
	_ = database.VerifClose()
}

func dumpMap(d *db.DB) map[string][]byte {
	m := map[string][]byte{}
	for _, e := range d.VerifDump() {
		m[string(e.K)] = e.V
	}
	return m
}

func equalMaps(a, b map[string][]byte) bool {
	if len(a) != len(b) {
		return false
	}
	for k, v := range a {
		w, ok := b[k]
		if !ok || !bytes.Equal(v, w) {
			return false
		}
	}
	return true
}
