// C09, third part: the hostile peer's messages against every network-facing decoder and proof verifier in isolation.
// The messages are what the simulated hostile peer of the chain harness sends (chainsim.MutateBytes: the same seeded
// mutators, incl. damage inside nested fields with fitted length prefixes and blown-up length prefixes), applied to valid
// encodings of every message kind the property names - also the kinds no simulated node step decodes (RMT and SMT proofs,
// sync RPC payloads in both directions, events). Oracle: a decoder or verifier returns (no panic), in time, and allocates
// memory bounded by the input size.
package decoders

import (
	"bytes"
	"fmt"
	"os"
	"runtime"
	"strings"
	"testing"
	"time"

	"pgregory.net/rapid"

	"github.com/LiskHQ/lisk-engine/pkg/blockchain"
	"github.com/LiskHQ/lisk-engine/pkg/codec"
	"github.com/LiskHQ/lisk-engine/pkg/consensus"
	"github.com/LiskHQ/lisk-engine/pkg/consensus/certificate"
	csync "github.com/LiskHQ/lisk-engine/pkg/consensus/sync"
	"github.com/LiskHQ/lisk-engine/pkg/crypto"
	"github.com/LiskHQ/lisk-engine/pkg/trie/rmt"
	"github.com/LiskHQ/lisk-engine/pkg/trie/smt"

	"verif/sim/chainsim"
	"verif/sim/simkit"
)

type target struct {
	name   string
	valid  func(t *rapid.T) []byte
	decode func(b []byte)
}

func h(s string) []byte { x := crypto.Hash([]byte(s)); return x }

func sampleTx(i int) *blockchain.Transaction {
	tx := &blockchain.Transaction{Module: "sim", Command: "prog", Nonce: uint64(i), Fee: uint64(1000 + i), SenderPublicKey: h(fmt.Sprint("pk", i)), Params: bytes.Repeat([]byte{byte(i)}, i%7),
		Signatures: []codec.Hex{bytes.Repeat([]byte{byte(i)}, 64)}}
	tx.Init()
	return tx
}

func sampleBlock(t *rapid.T) *blockchain.Block {
	n := simkit.Int(t, "ntx", 0, 3)
	var txs []*blockchain.Transaction
	for i := 0; i < n; i++ {
		txs = append(txs, sampleTx(i))
	}
	hd := &blockchain.BlockHeader{Version: 2, Timestamp: 1700000000, Height: uint32(simkit.Int(t, "height", 1, 1<<20)), PreviousBlockID: h("prev"), GeneratorAddress: h("gen")[:20],
		TransactionRoot: h("tr"), AssetRoot: h("ar"), EventRoot: h("er"), StateRoot: h("sr"), MaxHeightPrevoted: 7, MaxHeightGenerated: 3, ImpliesMaxPrevotes: simkit.Bool(t, "imp"), ValidatorsHash: h("vh"),
		AggregateCommit: &blockchain.AggregateCommit{Height: 5, AggregationBits: []byte{0x0f}, CertificateSignature: bytes.Repeat([]byte{3}, 96)}, Signature: bytes.Repeat([]byte{4}, 64)}
	b := &blockchain.Block{Header: hd, Transactions: txs, Assets: []*blockchain.BlockAsset{{Module: "sim", Data: []byte{0, 0, 0, 1}}}}
	b.Init()
	return b
}

func targets() []target {
	return []target{
		{"block", func(t *rapid.T) []byte { return sampleBlock(t).Encode() }, func(b []byte) {
			if blk, err := blockchain.NewBlock(b); err == nil {
				_ = blk.Validate()
			}
		}},
		{"block-header", func(t *rapid.T) []byte { return sampleBlock(t).Header.Encode() }, func(b []byte) {
			if hd, err := blockchain.NewBlockHeader(b); err == nil {
				_ = hd.Validate()
			}
		}},
		{"transaction", func(t *rapid.T) []byte { return sampleTx(simkit.Int(t, "txi", 0, 9)).Encode() }, func(b []byte) {
			if tx, err := blockchain.NewTransaction(b); err == nil {
				_ = tx.Validate()
			}
			tx := &blockchain.Transaction{}
			_ = tx.DecodeStrict(b)
		}},
		{"single-commits", func(t *rapid.T) []byte {
			sc := certificate.VerifNewSingleCommit(h("b"), 9, h("v")[:20], bytes.Repeat([]byte{5}, 96))
			return (&consensus.EventPostSingleCommits{SingleCommits: []*certificate.SingleCommit{sc, sc}}).Encode()
		}, func(b []byte) {
			m := &consensus.EventPostSingleCommits{}
			if m.Decode(b) == nil {
				for _, c := range m.SingleCommits {
					_ = c.Validate()
				}
			}
		}},
		{"aggregate-commit", func(t *rapid.T) []byte {
			return (&blockchain.AggregateCommit{Height: 5, AggregationBits: []byte{0xff, 0x01}, CertificateSignature: bytes.Repeat([]byte{3}, 96)}).Encode()
		}, func(b []byte) { _ = (&blockchain.AggregateCommit{}).Decode(b) }},
		{"event", func(t *rapid.T) []byte {
			return (&blockchain.Event{Module: "sim", Name: "ev", Data: []byte{1, 2}, Topics: []codec.Hex{h("t1"), h("t2")}, Height: 4, Index: 1}).Encode()
		}, func(b []byte) {
			e := &blockchain.Event{}
			if e.Decode(b) == nil {
				_ = e.Validate()
			}
		}},
		{"sync-common-block-request", func(t *rapid.T) []byte {
			return (&csync.GetHighestCommonBlockRequest{IDs: [][]byte{h("a"), h("b"), h("c")}}).Encode()
		}, func(b []byte) { _ = (&csync.GetHighestCommonBlockRequest{}).Decode(b) }},
		{"sync-common-block-response", func(t *rapid.T) []byte { return (&csync.GetHighestCommonBlockResponse{ID: h("a")}).Encode() },
			func(b []byte) { _ = (&csync.GetHighestCommonBlockResponse{}).Decode(b) }},
		{"sync-blocks-request", func(t *rapid.T) []byte { return (&csync.GetBlocksFromIDRequest{ID: h("a")}).Encode() },
			func(b []byte) { _ = (&csync.GetBlocksFromIDRequest{}).Decode(b) }},
		{"sync-blocks-response", func(t *rapid.T) []byte {
			return (&csync.GetBlocksFromIDResponse{Blocks: []*blockchain.Block{sampleBlock(t), sampleBlock(t)}}).Encode()
		}, func(b []byte) { _ = (&csync.GetBlocksFromIDResponse{}).Decode(b) }},
		{"rmt-proof", func(t *rapid.T) []byte {
			return (&rmt.Proof{Size: uint64(simkit.Int(t, "rsize", 1, 300)), Idxs: []uint64{2, 5, uint64(simkit.Int(t, "ridx", 0, 600))}, SiblingHashes: [][]byte{h("s1"), h("s2"), h("s3")}}).Encode()
		}, func(b []byte) {
			p := &rmt.Proof{}
			if p.Decode(b) == nil {
				_ = rmt.VerifyProof([][]byte{h("q1"), h("q2"), h("q3")}, p, h("root"))
				_, _ = rmt.CalculateRootFromUpdateData([][]byte{h("u1"), h("u2"), h("u3")}, p)
			}
		}},
		{"smt-proof", func(t *rapid.T) []byte {
			kl := []int{1, 2, 32}[simkit.Int(t, "skl", 0, 2)]
			q := func(s string, bm []byte) *smt.QueryProof {
				return &smt.QueryProof{Key: h(s)[:kl], Value: h("v" + s), Bitmap: bm}
			}
			return append([]byte{byte(kl)}, (&smt.Proof{SiblingHashes: []codec.Hex{h("s1"), h("s2")}, Queries: []*smt.QueryProof{q("a", simkit.Bytes(t, "sbm", 0, 5)), q("b", []byte{0x80})}}).Encode()...)
		}, func(b []byte) {
			if len(b) == 0 {
				return
			}
			kl := int(b[0])
			if kl != 1 && kl != 2 && kl != 32 {
				kl = 32
			}
			p := &smt.Proof{}
			if p.Decode(b[1:]) == nil {
				keys := make([][]byte, len(p.Queries))
				for i, q := range p.Queries {
					if i%2 == 0 {
						keys[i] = q.Key // the queried key itself
					} else {
						keys[i] = h("other")[:kl]
					}
				}
				_, _ = smt.Verify(keys, p, h("root"), kl)
			}
		}},
	}
}

func site(stack string) string {
	for _, ln := range strings.Split(stack, "\n") {
		if i := strings.Index(ln, "github.com/LiskHQ/lisk-engine/pkg/"); i >= 0 {
			f := ln[i+len("github.com/LiskHQ/lisk-engine/"):]
			if j := strings.LastIndex(f, "("); j > 0 {
				f = f[:j]
			}
			return strings.TrimSpace(f)
		}
	}
	return "unknown"
}

func TestMain(m *testing.M) {
	p := os.Getenv("VERIF_PROP")
	if p == "" {
		p = "C09"
	}
	simkit.Init(p)
	code := m.Run()
	simkit.Flush()
	os.Exit(code)
}

func TestC09Decoders(t *testing.T) {
	ts := targets()
	rapid.Check(t, func(t *rapid.T) {
		simkit.AddRun()
		defer simkit.Watch(60*time.Second, "C09 decoders run")()
		simkit.Guard(func() {
			tg := ts[simkit.Int(t, "target", 0, len(ts)-1)]
			valid := tg.valid(t)
			prefix := 0
			if tg.name == "smt-proof" {
				prefix = 1 // the key length the verifier is called with travels in front and is not mutated
			}
			msg, how := valid, "untouched"
			for k := simkit.Int(t, "rounds", 0, 2); k > 0; k-- {
				var m []byte
				m, how = chainsim.MutateBytes(t, msg[prefix:])
				msg = append(append([]byte(nil), msg[:prefix]...), m...)
			}
			simkit.Probe("decoder_" + tg.name)
			simkit.Fault("hostile_" + how)
			var before, after runtime.MemStats
			runtime.ReadMemStats(&before)
			start := time.Now()
			var stack string
			p := func() (p interface{}) {
				defer func() {
					if p = recover(); p != nil {
						buf := make([]byte, 4000)
						stack = string(buf[:runtime.Stack(buf, false)])
					}
				}()
				tg.decode(msg)
				return nil
			}()
			el := time.Since(start)
			runtime.ReadMemStats(&after)
			simkit.AddSteps(1)
			simkit.Distinct(tg.name, how, fmt.Sprintf("%x", msg))
			if p != nil {
				simkit.Fail(t, "C09", "panic", site(stack), "decoding / verifying a hostile %s message (%s, %d bytes: %x) panicked: %v\n%s", tg.name, how, len(msg), msg, p, stack)
			}
			if alloc := after.TotalAlloc - before.TotalAlloc; alloc > uint64(4<<20+2000*len(msg)) {
				simkit.Fail(t, "C09", "memory", tg.name, "decoding / verifying a hostile %s message (%s) of %d bytes (%x) allocated %d bytes", tg.name, how, len(msg), msg, alloc)
			}
			if el > 5*time.Second {
				simkit.Fail(t, "C09", "time", tg.name, "decoding / verifying a hostile %s message (%s) of %d bytes took %v", tg.name, how, len(msg), el)
			}
		})
	})
}
