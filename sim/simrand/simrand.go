// Package simrand is swapped in for math/rand: draws come from a source installed by the harness.
package simrand

import "sync"

var (
	mu  sync.Mutex
	src func(n int) int
)

// SetSource installs the function answering Intn. nil restores the default (always 0).
func SetSource(f func(n int) int) { mu.Lock(); src = f; mu.Unlock() }

func Intn(n int) int {
	mu.Lock()
	f := src
	mu.Unlock()
	if f == nil || n <= 1 {
		return 0
	}
	return f(n)
}

func Seed(int64) {}

func Shuffle(n int, swap func(i, j int)) {
	for i := n - 1; i > 0; i-- {
		j := Intn(i + 1)
		swap(i, j)
	}
}
