// Package simtime is swapped in for "time": the same API on the simulated clock.
package simtime

import (
	"time"

	"verif/sim/simrt"
)

type (
	Time     = time.Time
	Duration = time.Duration
	Month    = time.Month
	Weekday  = time.Weekday
	Location = time.Location
)

const (
	Nanosecond  = time.Nanosecond
	Microsecond = time.Microsecond
	Millisecond = time.Millisecond
	Second      = time.Second
	Minute      = time.Minute
	Hour        = time.Hour
	RFC3339     = time.RFC3339
	RFC3339Nano = time.RFC3339Nano
)

var UTC = time.UTC

func Unix(sec, nsec int64) Time                { return time.Unix(sec, nsec) }
func UnixMilli(ms int64) Time                  { return time.UnixMilli(ms) }
func ParseDuration(s string) (Duration, error) { return time.ParseDuration(s) }
func Date(y int, m Month, d, h, mi, s, ns int, loc *Location) Time {
	return time.Date(y, m, d, h, mi, s, ns, loc)
}

func Now() Time             { return simrt.C.Now() }
func Since(t Time) Duration { return Now().Sub(t) }
func Until(t Time) Duration { return t.Sub(Now()) }

type Ticker struct {
	C  <-chan Time
	c  chan Time
	tm *simrt.Timer
}

func NewTicker(d Duration) *Ticker {
	if d <= 0 {
		panic("non-positive interval for NewTicker")
	}
	c := make(chan Time, 1)
	t := &Ticker{C: c, c: c}
	t.tm = simrt.C.AfterFunc(d, d, func() {
		select {
		case c <- simrt.C.NowTrue():
		default:
		}
	})
	return t
}

func (t *Ticker) Stop()            { simrt.C.Stop(t.tm) }
func (t *Ticker) Reset(d Duration) { simrt.C.Reset(t.tm, d) }

func Tick(d Duration) <-chan Time { return NewTicker(d).C }

type Timer struct {
	C  <-chan Time
	tm *simrt.Timer
}

func NewTimer(d Duration) *Timer {
	c := make(chan Time, 1)
	t := &Timer{C: c}
	t.tm = simrt.C.AfterFunc(d, 0, func() {
		select {
		case c <- simrt.C.NowTrue():
		default:
		}
	})
	return t
}

func (t *Timer) Stop() bool            { return simrt.C.Stop(t.tm) }
func (t *Timer) Reset(d Duration) bool { return simrt.C.Reset(t.tm, d) }

func After(d Duration) <-chan Time { return NewTimer(d).C }

func AfterFunc(d Duration, f func()) *Timer {
	t := &Timer{}
	t.tm = simrt.C.AfterFunc(d, 0, func() {
		if k := simrt.Active(); k != nil {
			k.Go("afterfunc", "", f)
		} else {
			f()
		}
	})
	return t
}

// Sleep parks the calling task on the simulated clock. Outside a task it returns at once (there is nobody to
// advance the clock for the caller).
func Sleep(d Duration) {
	if simrt.Current() == nil {
		return
	}
	f := &simrt.Flag{What: "sleep"}
	simrt.C.AfterFunc(d, 0, f.Set)
	simrt.FlagWait("sleep", f)
}
