// Package simsync is swapped in for "sync" in rewritten repo files. Inside a kernel task the lock model decides;
// elsewhere the types behave exactly like the real ones.
package simsync

import (
	"sync"

	"verif/sim/simrt"
)

type (
	Map    = sync.Map
	Pool   = sync.Pool
	Once   = sync.Once
	Locker = sync.Locker
)

type Mutex struct {
	real sync.Mutex
	m    simrt.MutexModel
}

func (m *Mutex) Lock() {
	if t := simrt.Current(); t != nil {
		m.m.Lock(t)
	}
	m.real.Lock()
}

func (m *Mutex) TryLock() bool {
	if t := simrt.Current(); t != nil {
		if !m.m.TryLock(t) {
			return false
		}
		m.real.Lock()
		return true
	}
	return m.real.TryLock()
}

func (m *Mutex) Unlock() {
	m.real.Unlock()
	if t := simrt.Current(); t != nil {
		m.m.Unlock(t)
	}
}

// VerifHeld is for oracles: true while the model says the mutex is held by a task.
func (m *Mutex) VerifHeld() bool { return m.m.Held() }

type RWMutex struct {
	real sync.RWMutex
	m    simrt.RWMutexModel
}

func (m *RWMutex) Lock() {
	if t := simrt.Current(); t != nil {
		m.m.Lock(t)
	}
	m.real.Lock()
}

func (m *RWMutex) Unlock() {
	m.real.Unlock()
	if t := simrt.Current(); t != nil {
		m.m.Unlock(t)
	}
}

func (m *RWMutex) RLock() {
	if t := simrt.Current(); t != nil {
		m.m.RLock(t)
	}
	m.real.RLock()
}

func (m *RWMutex) RUnlock() {
	m.real.RUnlock()
	if t := simrt.Current(); t != nil {
		m.m.RUnlock(t)
	}
}

func (m *RWMutex) VerifBusy() bool { return m.m.Busy() }
func (m *RWMutex) VerifHeld() bool { return m.m.Held() }

type rlocker RWMutex

func (r *rlocker) Lock()   { (*RWMutex)(r).RLock() }
func (r *rlocker) Unlock() { (*RWMutex)(r).RUnlock() }

func (m *RWMutex) RLocker() sync.Locker { return (*rlocker)(m) }

type WaitGroup struct {
	real sync.WaitGroup
	m    simrt.WaitGroupModel
	used bool
}

func (w *WaitGroup) Add(d int) {
	if simrt.Active() != nil {
		w.m.Add(d)
	}
	w.real.Add(d)
}

func (w *WaitGroup) Done() { w.Add(-1) }

func (w *WaitGroup) Wait() {
	if t := simrt.Current(); t != nil {
		w.m.Wait(t)
	}
	w.real.Wait()
}
