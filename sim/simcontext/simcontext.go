// Package simcontext is swapped in for "context": deadlines run on the simulated clock.
package simcontext

import (
	"context"
	"time"

	"verif/sim/simrt"
)

type (
	Context    = context.Context
	CancelFunc = context.CancelFunc
)

var (
	Canceled         = context.Canceled
	DeadlineExceeded = context.DeadlineExceeded
)

func Background() Context { return context.Background() }
func TODO() Context       { return context.TODO() }

func WithCancel(parent Context) (Context, CancelFunc) { return context.WithCancel(parent) }
func WithValue(parent Context, key, val any) Context  { return context.WithValue(parent, key, val) }

type deadlineCtx struct {
	context.Context
	deadline time.Time
	cancel   context.CancelCauseFunc
}

func (c *deadlineCtx) Deadline() (time.Time, bool) { return c.deadline, true }
func (c *deadlineCtx) Err() error {
	if context.Cause(c.Context) == context.DeadlineExceeded {
		return context.DeadlineExceeded
	}
	return c.Context.Err()
}

// Expire makes the context end with DeadlineExceeded now (used by the simulated transport to model a timeout).
func (c *deadlineCtx) Expire() { c.cancel(context.DeadlineExceeded) }

// Expire ends ctx with DeadlineExceeded if it is a simulated deadline context (or wraps one); returns whether it was.
func Expire(ctx Context) bool {
	if d, ok := ctx.(*deadlineCtx); ok {
		d.Expire()
		return true
	}
	return false
}

func WithDeadline(parent Context, d time.Time) (Context, CancelFunc) {
	inner, cancel := context.WithCancelCause(parent)
	c := &deadlineCtx{Context: inner, deadline: d, cancel: cancel}
	tm := simrt.C.AfterFunc(d.Sub(simrt.C.Now()), 0, func() { cancel(context.DeadlineExceeded) })
	return c, func() { simrt.C.Stop(tm); cancel(context.Canceled) }
}

func WithTimeout(parent Context, d time.Duration) (Context, CancelFunc) {
	return WithDeadline(parent, simrt.C.Now().Add(d))
}
