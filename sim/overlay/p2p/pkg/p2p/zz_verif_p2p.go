package p2p

// Added by the verification overlay: constructors for the request/response protocol, the connection gater and the
// rate limiter on a host chosen by the harness (the simulated libp2p host), plus read-only accessors.

import (
	"context"
	"net"
	"time"

	"github.com/libp2p/go-libp2p/core/host"
	"github.com/libp2p/go-libp2p/core/network"
	ma "github.com/multiformats/go-multiaddr"

	"github.com/LiskHQ/lisk-engine/pkg/log"
	sync "verif/sim/simsync"
)

// VerifNewPeer builds a Peer around h the way newPeer does around a libp2p host: connection gater with the
// configured blacklist (started), no peer book.
func VerifNewPeer(ctx context.Context, wg *sync.WaitGroup, logger log.Logger, h host.Host, expiration, interval time.Duration, blacklist []string) (*Peer, error) {
	cg, err := newConnGater(logger, expiration, interval)
	if err != nil {
		return nil, err
	}
	if _, err := cg.optionWithBlacklist(blacklist); err != nil {
		return nil, err
	}
	p := &Peer{logger: logger, host: h, connGater: cg}
	p.connGater.start(ctx, wg)
	return p, nil
}

type VerifGater struct{ cg *connectionGater }

func (p *Peer) VerifGater() VerifGater { return VerifGater{p.connGater} }

func (g VerifGater) InterceptPeerDial(pid PeerID) bool                  { return g.cg.InterceptPeerDial(pid) }
func (g VerifGater) InterceptAddrDial(pid PeerID, a ma.Multiaddr) bool { return g.cg.InterceptAddrDial(pid, a) }
func (g VerifGater) InterceptAccept(c network.ConnMultiaddrs) bool     { return g.cg.InterceptAccept(c) }
func (g VerifGater) InterceptSecured(d network.Direction, pid PeerID, c network.ConnMultiaddrs) bool {
	return g.cg.InterceptSecured(d, pid, c)
}

// VerifScore returns the stored score and ban expiry (unix seconds, -1 = not banned) of an IP, without locking.
func (g VerifGater) VerifScore(ip net.IP) (score int, expiration int64, known bool) {
	info, ok := g.cg.peerScore[ip.String()]
	if !ok {
		return 0, 0, false
	}
	return info.score, info.expiration, true
}

func (g VerifGater) VerifLockFree() bool { return !g.cg.mutex.VerifHeld() }

func (p *Peer) VerifAddPenalty(addr ma.Multiaddr, score int) error { return p.addPenalty(addr, score) }
func (p *Peer) VerifBanPeer(addr ma.Multiaddr) error               { return p.banPeer(addr) }

func VerifNewMessageProtocol(chainID []byte, version string) *MessageProtocol {
	return newMessageProtocol(chainID, version)
}

func (mp *MessageProtocol) VerifStart(ctx context.Context, logger log.Logger, peer *Peer) {
	mp.start(ctx, logger, peer)
}
func (mp *MessageProtocol) VerifSetTimeout(d time.Duration) { mp.timeout = d }
func (mp *MessageProtocol) VerifPending() int               { return len(mp.resCh) }
func (mp *MessageProtocol) VerifLockFree() bool             { return !mp.resMu.VerifHeld() }
func (mp *MessageProtocol) VerifRateLimiterHandler(ctx context.Context, wg *sync.WaitGroup) {
	wg.Add(1)
	rateLimiterHandler(ctx, wg, mp.rateLimit)
}
func (mp *MessageProtocol) VerifSetRateInterval(d time.Duration) { mp.rateLimit.interval = d }

const VerifMaxRetries = messageMaxRetries
