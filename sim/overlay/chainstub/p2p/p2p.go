// Package p2p (simulation stub): replaces the repository's libp2p-based package in the chainsim build through the
// overlay. It offers the identifiers the rest of the engine uses and hands all traffic to a transport owned by the
// simulator. Gossip and request/response semantics are implemented by the simulator (verif/sim/chainsim).
package p2p

import (
	"context"
	"errors"
	"fmt"
	"sync"

	"github.com/LiskHQ/lisk-engine/pkg/log"
)

type PeerID string

func (p PeerID) String() string { return string(p) }

type PeerIDs []PeerID

type AddrInfo struct {
	ID    PeerID
	Addrs []string
}

type ValidationResult int

const (
	ValidationAccept = ValidationResult(0)
	ValidationReject = ValidationResult(1)
	ValidationIgnore = ValidationResult(2)
)

type Message struct {
	Timestamp int64
	Data      []byte
}

func NewMessage(data []byte) *Message { return &Message{Data: data} }

type Event struct {
	peerID PeerID
	topic  string
	data   []byte
}

func NewEvent(peerID PeerID, topic string, data []byte) *Event {
	return &Event{peerID: peerID, topic: topic, data: data}
}
func (e *Event) PeerID() PeerID { return e.peerID }
func (e *Event) Topic() string  { return e.topic }
func (e *Event) Data() []byte   { return e.data }

type EventHandler func(event *Event)
type Validator = func(context.Context, *Message) ValidationResult

type Request struct {
	ID        string
	Procedure string
	Data      []byte
	Timestamp int64
	PeerID    PeerID
}

type Response struct {
	timestamp int64
	peerID    PeerID
	data      []byte
	err       error
}

func NewResponse(timestamp int64, peerID PeerID, data []byte, err error) *Response {
	return &Response{timestamp: timestamp, peerID: peerID, data: data, err: err}
}
func (r *Response) Timestamp() int64 { return r.timestamp }
func (r *Response) PeerID() PeerID   { return r.peerID }
func (r *Response) Data() []byte     { return r.data }
func (r *Response) Error() error     { return r.err }

type ResponseWriter interface {
	Write([]byte)
	Error(error)
}

type responseWriter struct {
	data []byte
	err  error
}

func (w *responseWriter) Write(data []byte) { w.data = data }
func (w *responseWriter) Error(err error)   { w.err = err }

type RPCHandler func(w ResponseWriter, req *Request)
type RPCHandlerOption func() error

type Config struct {
	Version                  string
	Addresses                []string
	ConnectionSecurity       string
	AllowIncomingConnections bool
	EnableNATService         bool
	EnableUsingRelayService  bool
	EnableRelayService       bool
	EnableHolePunching       bool
	SeedPeers                []string
	FixedPeers               []string
	BlacklistedIPs           []string
	MinNumOfConnections      int
	MaxNumOfConnections      int
	IsSeedPeer               bool
	ChainID                  []byte
}

// VerifTransport is implemented by the simulator.
type VerifTransport interface {
	Publish(from PeerID, topic string, data []byte) error
	Request(ctx context.Context, from, to PeerID, procedure string, data []byte) Response
	Peers(of PeerID) PeerIDs
	Ban(by, whom PeerID)
	Penalty(by, whom PeerID, score int)
}

type eventReg struct {
	handler   EventHandler
	validator Validator
}

type Connection struct {
	logger log.Logger
	cfg    *Config
	mu     sync.Mutex
	self   PeerID
	tr     VerifTransport
	rpc    map[string]RPCHandler
	events map[string]eventReg
}

func NewConnection(logger log.Logger, cfg *Config) *Connection {
	return &Connection{logger: logger, cfg: cfg, rpc: map[string]RPCHandler{}, events: map[string]eventReg{}}
}

// VerifAttach connects the stub to the simulated network under the given identity.
func (c *Connection) VerifAttach(self PeerID, tr VerifTransport) { c.self = self; c.tr = tr }
func (c *Connection) VerifSelf() PeerID                          { return c.self }

func (c *Connection) Version() string         { return c.cfg.Version }
func (c *Connection) Start(seed []byte) error { return nil }
func (c *Connection) Stop() error             { return nil }

func (c *Connection) RegisterRPCHandler(name string, handler RPCHandler, opts ...RPCHandlerOption) error {
	c.mu.Lock()
	defer c.mu.Unlock()
	if _, ok := c.rpc[name]; ok {
		return fmt.Errorf("rpcHandler %s is already registered", name)
	}
	c.rpc[name] = handler
	return nil
}

func (c *Connection) RegisterEventHandler(name string, handler EventHandler, validator Validator) error {
	c.mu.Lock()
	defer c.mu.Unlock()
	if _, ok := c.events[name]; ok {
		return errors.New("eventHandler is already registered")
	}
	c.events[name] = eventReg{handler, validator}
	return nil
}

func (c *Connection) Publish(ctx context.Context, topicName string, data []byte) error {
	c.mu.Lock()
	_, ok := c.events[topicName]
	c.mu.Unlock()
	if !ok {
		return errors.New("topic not found")
	}
	return c.tr.Publish(c.self, topicName, data)
}

func (c *Connection) Broadcast(ctx context.Context, procedure string, data []byte) error {
	for _, p := range c.tr.Peers(c.self) {
		if r := c.tr.Request(ctx, c.self, p, procedure, data); r.err != nil {
			return r.err
		}
	}
	return nil
}

func (c *Connection) RequestFrom(ctx context.Context, peerID PeerID, procedure string, data []byte) Response {
	return c.tr.Request(ctx, c.self, peerID, procedure, data)
}

func (c *Connection) ConnectedPeers() PeerIDs        { return c.tr.Peers(c.self) }
func (c *Connection) BanPeer(pid PeerID)             { c.tr.Ban(c.self, pid) }
func (c *Connection) ApplyPenalty(pid PeerID, s int) { c.tr.Penalty(c.self, pid, s) }

// VerifValidate runs the topic validator of this node on a gossip payload (Ignore when the topic is unknown).
func (c *Connection) VerifValidate(ctx context.Context, topic string, data []byte) ValidationResult {
	c.mu.Lock()
	reg, ok := c.events[topic]
	c.mu.Unlock()
	if !ok {
		return ValidationIgnore
	}
	if reg.validator == nil {
		return ValidationAccept
	}
	return reg.validator(ctx, &Message{Data: data})
}

// VerifHandleEvent runs the event handler (after an Accept).
func (c *Connection) VerifHandleEvent(from PeerID, topic string, data []byte) {
	c.mu.Lock()
	reg, ok := c.events[topic]
	c.mu.Unlock()
	if ok && reg.handler != nil {
		reg.handler(NewEvent(from, topic, data))
	}
}

// VerifHandleRPC runs the registered handler; known=false when the procedure is not registered.
func (c *Connection) VerifHandleRPC(from PeerID, procedure string, data []byte) (resp []byte, err error, known bool) {
	c.mu.Lock()
	h, ok := c.rpc[procedure]
	c.mu.Unlock()
	if !ok {
		return nil, nil, false
	}
	w := &responseWriter{}
	h(w, &Request{ID: "sim", Procedure: procedure, Data: data, PeerID: from})
	return w.data, w.err, true
}

// VerifResponse builds a Response value (the fields are unexported).
func VerifResponse(from PeerID, data []byte, err error) Response {
	return Response{peerID: from, data: data, err: err}
}
