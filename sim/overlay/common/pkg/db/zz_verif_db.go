package db

// Added by the verification overlay (never part of a shipped build): open the repo's DB type on a simulated
// file system, and dump it.

import (
	"fmt"
	"sort"

	"github.com/cockroachdb/pebble"
	"github.com/cockroachdb/pebble/vfs"
)

// VerifOpts lets a harness randomise pebble tuning knobs per run (0 = pebble default).
type VerifOpts struct {
	MemTableSize int
	CacheSize    int64
	// Fatal is called when pebble decides the process must exit (its Logger.Fatalf); it must not return.
	Fatal func(msg string)
	// KeepCompactions leaves pebble's background compactions on. Off by default in the harnesses: their timing
	// is outside the simulator's control and would make the numbering of file-system calls irreproducible.
	KeepCompactions bool
}

type verifLogger struct{ fatal func(string) }

func (verifLogger) Infof(format string, args ...interface{}) {}
func (l verifLogger) Fatalf(format string, args ...interface{}) {
	if l.fatal != nil {
		l.fatal(fmt.Sprintf(format, args...))
	}
	panic(fmt.Sprintf("pebble fatal: "+format, args...))
}

// NewDBWithFS is NewDB with the file system (and optionally tuning knobs) chosen by the harness.
func NewDBWithFS(path string, fs vfs.FS, o VerifOpts) (*DB, error) {
	opts := &pebble.Options{
		ErrorIfExists: false,
		FS:            fs,
	}
	opts.DisableAutomaticCompactions = !o.KeepCompactions
	if o.Fatal != nil {
		opts.Logger = verifLogger{o.Fatal}
	}
	if o.MemTableSize > 0 {
		opts.MemTableSize = o.MemTableSize
	}
	if o.CacheSize > 0 {
		c := pebble.NewCache(o.CacheSize)
		defer c.Unref()
		opts.Cache = c
	}
	pebbleDB, err := pebble.Open(path, opts)
	if err != nil {
		return nil, err
	}
	return &DB{pebbleDB: pebbleDB}, nil
}

// VerifKV is one entry of a dump.
type VerifKV struct {
	K, V []byte
}

// VerifDump returns every key/value pair in key order, read with a plain iterator.
func (db *DB) VerifDump() []VerifKV {
	iter := db.pebbleDB.NewIter(nil)
	defer iter.Close()
	var out []VerifKV
	for iter.First(); iter.Valid(); iter.Next() {
		k := append([]byte(nil), iter.Key()...)
		v := append([]byte(nil), iter.Value()...)
		out = append(out, VerifKV{k, v})
	}
	sort.SliceStable(out, func(i, j int) bool { return string(out[i].K) < string(out[j].K) })
	return out
}

// VerifClose closes the DB and reports the error instead of hiding it.
func (db *DB) VerifClose() error { return db.pebbleDB.Close() }
