package txpool

// Added by the verification overlay: one promotion round (the ticker branch of Start).
func (t *TransactionPool) VerifReorg() { t.reorg() }
