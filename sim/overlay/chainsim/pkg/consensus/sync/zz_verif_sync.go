package sync

// Added by the verification overlay: the peer selection function on plain values.

import "github.com/LiskHQ/lisk-engine/pkg/p2p"

type VerifTip struct {
	Height, MaxHeightPrevoted uint32
	ID                        []byte
	Peer                      string
}

// VerifBestNodeInfo returns the index of the selected tip, or -1.
func VerifBestNodeInfo(tips []VerifTip) int {
	infos := make([]*NodeInfo, len(tips))
	for i, t := range tips {
		infos[i] = NewNodeInfo(t.Height, t.MaxHeightPrevoted, 2, t.ID)
		infos[i].PeerID = p2p.PeerID(t.Peer)
	}
	best, err := getBestNodeInfo(infos)
	if err != nil {
		return -1
	}
	for i, n := range infos {
		if n == best {
			return i
		}
	}
	return -1
}
