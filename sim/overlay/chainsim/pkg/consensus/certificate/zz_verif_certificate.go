package certificate

// Added by the verification overlay: build a single commit from plain values (the fields are unexported), as a peer's
// message would be after decoding.

import "github.com/LiskHQ/lisk-engine/pkg/codec"

func VerifNewSingleCommit(blockID []byte, height uint32, address []byte, signature []byte) *SingleCommit {
	return &SingleCommit{blockID: codec.Hex(blockID), height: height, validatorAddress: codec.Lisk32(address), certificateSignature: codec.Hex(signature)}
}
