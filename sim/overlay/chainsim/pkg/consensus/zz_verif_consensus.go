package consensus

// Added by the verification overlay (chainsim): thin wrappers with no logic, so that the simulator can drive the
// executer without its Start loop and observe its state.

import (
	"context"

	"github.com/LiskHQ/lisk-engine/pkg/blockchain"
	"github.com/LiskHQ/lisk-engine/pkg/consensus/certificate"
	"github.com/LiskHQ/lisk-engine/pkg/consensus/liskbft"
	"github.com/LiskHQ/lisk-engine/pkg/consensus/sync"
	"github.com/LiskHQ/lisk-engine/pkg/db"
	"github.com/LiskHQ/lisk-engine/pkg/db/diffdb"
	"github.com/LiskHQ/lisk-engine/pkg/event"
	"github.com/LiskHQ/lisk-engine/pkg/p2p"
)

func (c *Executer) VerifDB() *db.DB                  { return c.database }
func (c *Executer) VerifPool() *certificate.Pool     { return c.certificatePool }
func (c *Executer) VerifBFT() *liskbft.Module        { return c.liskBFT }
func (c *Executer) VerifEvents() *event.EventEmitter { return c.events }
func (c *Executer) VerifQueueLen() int               { return len(c.processCh) }

// VerifStep is one iteration of the Start loop's block branch: process one queued block if there is one.
func (c *Executer) VerifStep() (bool, error) {
	select {
	case ctx := <-c.processCh:
		return true, c.process(ctx)
	default:
		return false, nil
	}
}

// VerifStepBlock is VerifStep that also tells which block (from which peer; "" = generated locally) was processed.
func (c *Executer) VerifStepBlock() (bool, *blockchain.Block, p2p.PeerID, error) {
	select {
	case ctx := <-c.processCh:
		return true, ctx.block, ctx.peerID, c.process(ctx)
	default:
		return false, nil, "", nil
	}
}

// VerifQueued returns the header of the next queued block without removing it (nil if none) - not possible on a
// channel; the simulator tracks what it queued itself. Kept out on purpose.

func (c *Executer) VerifProcess(block *blockchain.Block, peerID p2p.PeerID) error {
	return c.process(&ProcessContext{ctx: context.Background(), block: block, peerID: peerID})
}

func (c *Executer) VerifProcessValidated(block *blockchain.Block, publish, removeTemp bool) error {
	return c.processValidated(context.Background(), block, publish, removeTemp)
}

func (c *Executer) VerifDeleteBlock(block *blockchain.Block, saveTemp bool) error {
	return c.deleteBlock(context.Background(), block, saveTemp)
}

func (c *Executer) VerifBroadcastCertificate() error { return c.broadcastCertificate() }

func (c *Executer) VerifVerifyAggregateCommit(ac *blockchain.AggregateCommit) error {
	store := diffdb.New(c.database, blockchain.DBPrefixToBytes(blockchain.DBPrefixState))
	return c.verifyAggregateCommit(store, ac)
}

func (c *Executer) VerifBlockValidator(data []byte) p2p.ValidationResult {
	return c.blockValidator(context.Background(), &p2p.Message{Data: data})
}

func (c *Executer) VerifSingleCommitValidator(data []byte) p2p.ValidationResult {
	return c.singleCommitValidator(context.Background(), &p2p.Message{Data: data})
}

func (c *Executer) VerifStore() *diffdb.Database {
	return diffdb.New(c.database, blockchain.DBPrefixToBytes(blockchain.DBPrefixState))
}

// VerifPostSingleCommits encodes single commits the way broadcastCertificate does.
func VerifPostSingleCommits(commits certificate.SingleCommits) []byte {
	return (&EventPostSingleCommits{SingleCommits: commits}).Encode()
}

func VerifDecodePostSingleCommits(data []byte) (certificate.SingleCommits, error) {
	m := &EventPostSingleCommits{}
	if err := m.DecodeStrict(data); err != nil {
		return nil, err
	}
	return m.SingleCommits, nil
}

// VerifObserveSyncDeletes wires the syncer once more, exactly as Init does, with the removal callback passing through
// an observer: the harness sees which removals the synchronization asked to keep as temporary blocks.
func (c *Executer) VerifObserveSyncDeletes(f func(b *blockchain.Block, saveTemp bool)) {
	c.syncer = sync.NewSyncer(c.chain, c.blockSlot, c.conn, c.logger.With("module", "syncer"), c.processValidated,
		func(ctx context.Context, b *blockchain.Block, saveTemp bool) error {
			f(b, saveTemp)
			return c.deleteBlock(ctx, b, saveTemp)
		})
}
