package liskbft

// Added by the verification overlay: decoded view of the stored BFT votes and parameters for the reference model.

import (
	"github.com/LiskHQ/lisk-engine/pkg/collection/bytes"
	"github.com/LiskHQ/lisk-engine/pkg/db/diffdb"
)

type VerifBlockInfo struct {
	Height, MaxHeightGenerated, MaxHeightPrevoted uint32
	Generator                                     []byte
	PrevoteWeight, PrecommitWeight                uint64
}

type VerifValidatorInfo struct {
	Address                                 []byte
	MinActiveHeight, LargestHeightPrecommit uint32
}

type VerifVotes struct {
	MaxHeightPrevoted, MaxHeightPrecommitted, MaxHeightCertified uint32
	Blocks                                                       []VerifBlockInfo // newest first
	Validators                                                   []VerifValidatorInfo
}

func VerifDumpVotes(store *diffdb.Database) (*VerifVotes, error) {
	v := &BFTVotes{}
	if err := diffdb.GetDecodable(store.WithPrefix(dbPrefix(storePrefixBFTVotes)), emptyKey, v); err != nil {
		return nil, err
	}
	out := &VerifVotes{MaxHeightPrevoted: v.maxHeightPrevoted, MaxHeightPrecommitted: v.maxHeightPrecommited, MaxHeightCertified: v.maxHeightCertified}
	for _, b := range v.blockBFTInfos {
		out.Blocks = append(out.Blocks, VerifBlockInfo{b.height, b.maxHeightGenerated, b.maxHeightPrevoted, b.generatorAddress, b.prevoteWeight, b.precommitWeight})
	}
	for _, a := range v.activeValidatorsVoteInfo {
		out.Validators = append(out.Validators, VerifValidatorInfo{a.address, a.minActiveHeight, a.largestHeightPrecommit})
	}
	return out, nil
}

// VerifParamHeights returns the heights for which BFT parameters / generator keys are stored.
func VerifParamHeights(store *diffdb.Database) (params []uint32, keys []uint32) {
	for _, kv := range store.WithPrefix(dbPrefix(storePrefixBFTParams)).Range(bytes.FromUint32(0), bytes.FromUint32(0xffffffff), -1, false) {
		params = append(params, bytes.ToUint32(kv.Key()))
	}
	for _, kv := range store.WithPrefix(dbPrefix(storePrefixGeneratorKeys)).Range(bytes.FromUint32(0), bytes.FromUint32(0xffffffff), -1, false) {
		keys = append(keys, bytes.ToUint32(kv.Key()))
	}
	return
}
