package generator

// Added by the verification overlay: the generator's tick and event branches as callable steps.

import (
	"github.com/LiskHQ/lisk-engine/pkg/blockchain"
	"github.com/LiskHQ/lisk-engine/pkg/db"
)

func (g *Generator) VerifForge()                          { g.forge() }
func (g *Generator) VerifOnNewBlock(msg interface{})      { g.onNewBlock(msg) }
func (g *Generator) VerifOnDeleteBlock(msg interface{})   { g.onDeleteBlock(msg) }
func (g *Generator) VerifOnFinalizeBlock(msg interface{}) { g.onFinalizeBlock(msg) }
func (g *Generator) VerifGeneratorDB() *db.DB             { return g.generatorDB }

// VerifSelect runs the transaction selection of forge on a given candidate list (C15 model comparison is done on
// real forges instead; kept for direct experiments).
func (g *Generator) VerifLimit(max int, txs []*blockchain.Transaction) []*blockchain.Transaction {
	return g.limitTransactionsWithSize(max, txs)
}
