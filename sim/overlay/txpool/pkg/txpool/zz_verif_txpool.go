package txpool

// Added by the verification overlay: lock-free read access to the pool's indexes for the oracle. The harness
// calls these only at quiescent instants at which VerifLocksFree() is true.

type VerifTx struct {
	ID     string
	Sender string
	Nonce  uint64
	Fee    uint64
}

type VerifAccount struct {
	Sender       string
	Transactions map[uint64]string // nonce -> id
	Nonces       []uint64
	Processables []uint64
}

type VerifSnapshot struct {
	All      map[string]VerifTx
	Accounts []VerifAccount
	FeeQueue []string
}

func (t *TransactionPool) VerifLocksFree() bool {
	if t.mutex.VerifHeld() {
		return false
	}
	for _, l := range t.perAccount {
		if l.mutex.VerifHeld() {
			return false
		}
	}
	return true
}

func (t *TransactionPool) VerifSnapshot() *VerifSnapshot {
	s := &VerifSnapshot{All: map[string]VerifTx{}}
	for id, tx := range t.allTransactions {
		s.All[id] = VerifTx{ID: string(tx.ID), Sender: string(tx.SenderAddress()), Nonce: tx.Nonce, Fee: tx.Fee}
	}
	for sender, l := range t.perAccount {
		a := VerifAccount{Sender: sender, Transactions: map[uint64]string{}}
		for n, tx := range l.transactions {
			a.Transactions[n] = string(tx.ID)
		}
		a.Nonces = append(a.Nonces, l.nonces...)
		a.Processables = append(a.Processables, l.processables...)
		s.Accounts = append(s.Accounts, a)
	}
	for _, tx := range t.feePriorityQueue {
		s.FeeQueue = append(s.FeeQueue, string(tx.ID))
	}
	return s
}

func (t *TransactionPool) VerifConfig() *TransactionPoolConfig { return t.config }
