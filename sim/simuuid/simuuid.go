// Package simuuid is swapped in for github.com/google/uuid: sequential, deterministic ids.
package simuuid

import (
	"fmt"
	"sync/atomic"
)

var ctr atomic.Uint64

func Reset() { ctr.Store(0) }

type UUID [16]byte

func (u UUID) String() string {
	return fmt.Sprintf("%08x-%04x-%04x-%04x-%012x", u[0:4], u[4:6], u[6:8], u[8:10], u[10:16])
}

func New() UUID {
	n := ctr.Add(1)
	var u UUID
	for i := 0; i < 8; i++ {
		u[15-i] = byte(n >> (8 * i))
	}
	u[6] = 0x40
	u[8] = 0x80
	return u
}
