// Package simratelimit is swapped in for go.uber.org/ratelimit: Take never sleeps in real time.
package simratelimit

import (
	"time"

	"verif/sim/simrt"
)

type Limiter interface{ Take() time.Time }

type limiter struct{}

func (limiter) Take() time.Time { return simrt.C.Now() }

func New(rate int, opts ...interface{}) Limiter { return limiter{} }
