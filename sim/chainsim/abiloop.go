package chainsim

import (
	"bytes"
	"fmt"
	"sync"

	"github.com/LiskHQ/lisk-engine/pkg/codec"
	"github.com/LiskHQ/lisk-engine/pkg/labi"
)

// ABILoop is the ABI "transport" between engine and application: every request and response is passed through its
// labi codec both ways, as the IPC client/server pair does, and the re-encoding is compared (C08 seam (d)).
type ABILoop struct {
	Inner    labi.ABI
	OnCodec  func(kind string, ok bool, detail string) // C08 monitor
	Fail     func(method string) error                 // optional fault: make the call fail before it reaches the application
	Calls    map[string]int
	TxResult func(kind string, txID []byte, result int32) // observation of verify/execute outcomes (C15 model)
}

type encdec interface {
	Encode() []byte
	Decode([]byte) error
}

func (a *ABILoop) trip(kind string, src encdec, dst encdec) error {
	enc := src.Encode()
	if err := dst.Decode(enc); err != nil {
		if a.OnCodec != nil {
			a.OnCodec(kind, false, "own encoding does not decode: "+err.Error())
		}
		return fmt.Errorf("abi loopback: %s: %w", kind, err)
	}
	if a.OnCodec != nil {
		re := dst.Encode()
		a.OnCodec(kind, bytes.Equal(enc, re), fmt.Sprintf("%x vs %x", enc, re))
	}
	return nil
}

var abiCountMu sync.Mutex

func (a *ABILoop) count(m string) error {
	abiCountMu.Lock()
	if a.Calls == nil {
		a.Calls = map[string]int{}
	}
	a.Calls[m]++
	abiCountMu.Unlock()
	if a.Fail != nil {
		return a.Fail(m)
	}
	return nil
}

func (a *ABILoop) Init(req *labi.InitRequest) (*labi.InitResponse, error) {
	if err := a.count("Init"); err != nil {
		return nil, err
	}
	r := &labi.InitRequest{}
	if err := a.trip("InitRequest", req, r); err != nil {
		return nil, err
	}
	res, err := a.Inner.Init(r)
	if err != nil {
		return nil, err
	}
	return res, nil
}

func (a *ABILoop) InitStateMachine(req *labi.InitStateMachineRequest) (*labi.InitStateMachineResponse, error) {
	if err := a.count("InitStateMachine"); err != nil {
		return nil, err
	}
	r := &labi.InitStateMachineRequest{}
	if err := a.trip("InitStateMachineRequest", req, r); err != nil {
		return nil, err
	}
	res, err := a.Inner.InitStateMachine(r)
	if err != nil {
		return nil, err
	}
	out := &labi.InitStateMachineResponse{}
	return out, a.trip("InitStateMachineResponse", res, out)
}

func (a *ABILoop) InitGenesisState(req *labi.InitGenesisStateRequest) (*labi.InitGenesisStateResponse, error) {
	if err := a.count("InitGenesisState"); err != nil {
		return nil, err
	}
	r := &labi.InitGenesisStateRequest{}
	if err := a.trip("InitGenesisStateRequest", req, r); err != nil {
		return nil, err
	}
	res, err := a.Inner.InitGenesisState(r)
	if err != nil {
		return nil, err
	}
	out := &labi.InitGenesisStateResponse{}
	return out, a.trip("InitGenesisStateResponse", res, out)
}

func (a *ABILoop) InsertAssets(req *labi.InsertAssetsRequest) (*labi.InsertAssetsResponse, error) {
	if err := a.count("InsertAssets"); err != nil {
		return nil, err
	}
	r := &labi.InsertAssetsRequest{}
	if err := a.trip("InsertAssetsRequest", req, r); err != nil {
		return nil, err
	}
	res, err := a.Inner.InsertAssets(r)
	if err != nil {
		return nil, err
	}
	out := &labi.InsertAssetsResponse{}
	return out, a.trip("InsertAssetsResponse", res, out)
}

func (a *ABILoop) VerifyAssets(req *labi.VerifyAssetsRequest) (*labi.VerifyAssetsResponse, error) {
	if err := a.count("VerifyAssets"); err != nil {
		return nil, err
	}
	r := &labi.VerifyAssetsRequest{}
	if err := a.trip("VerifyAssetsRequest", req, r); err != nil {
		return nil, err
	}
	res, err := a.Inner.VerifyAssets(r)
	if err != nil {
		return nil, err
	}
	return res, nil
}

func (a *ABILoop) BeforeTransactionsExecute(req *labi.BeforeTransactionsExecuteRequest) (*labi.BeforeTransactionsExecuteResponse, error) {
	if err := a.count("BeforeTransactionsExecute"); err != nil {
		return nil, err
	}
	r := &labi.BeforeTransactionsExecuteRequest{}
	if err := a.trip("BeforeTransactionsExecuteRequest", req, r); err != nil {
		return nil, err
	}
	res, err := a.Inner.BeforeTransactionsExecute(r)
	if err != nil {
		return nil, err
	}
	out := &labi.BeforeTransactionsExecuteResponse{}
	return out, a.trip("BeforeTransactionsExecuteResponse", res, out)
}

func (a *ABILoop) AfterTransactionsExecute(req *labi.AfterTransactionsExecuteRequest) (*labi.AfterTransactionsExecuteResponse, error) {
	if err := a.count("AfterTransactionsExecute"); err != nil {
		return nil, err
	}
	r := &labi.AfterTransactionsExecuteRequest{}
	if err := a.trip("AfterTransactionsExecuteRequest", req, r); err != nil {
		return nil, err
	}
	res, err := a.Inner.AfterTransactionsExecute(r)
	if err != nil {
		return nil, err
	}
	out := &labi.AfterTransactionsExecuteResponse{}
	return out, a.trip("AfterTransactionsExecuteResponse", res, out)
}

func (a *ABILoop) VerifyTransaction(req *labi.VerifyTransactionRequest) (*labi.VerifyTransactionResponse, error) {
	if err := a.count("VerifyTransaction"); err != nil {
		return nil, err
	}
	r := &labi.VerifyTransactionRequest{}
	if err := a.trip("VerifyTransactionRequest", req, r); err != nil {
		return nil, err
	}
	res, err := a.Inner.VerifyTransaction(r)
	if err != nil {
		return nil, err
	}
	if a.TxResult != nil && len(req.ContextID) > 0 {
		req.Transaction.Init()
		a.TxResult("verify", req.Transaction.ID, res.Result)
	}
	out := &labi.VerifyTransactionResponse{}
	return out, a.trip("VerifyTransactionResponse", res, out)
}

func (a *ABILoop) ExecuteTransaction(req *labi.ExecuteTransactionRequest) (*labi.ExecuteTransactionResponse, error) {
	if err := a.count("ExecuteTransaction"); err != nil {
		return nil, err
	}
	r := &labi.ExecuteTransactionRequest{}
	if err := a.trip("ExecuteTransactionRequest", req, r); err != nil {
		return nil, err
	}
	res, err := a.Inner.ExecuteTransaction(r)
	if err != nil {
		return nil, err
	}
	if a.TxResult != nil {
		req.Transaction.Init()
		a.TxResult("execute", req.Transaction.ID, res.Result)
	}
	out := &labi.ExecuteTransactionResponse{}
	return out, a.trip("ExecuteTransactionResponse", res, out)
}

func (a *ABILoop) Commit(req *labi.CommitRequest) (*labi.CommitResponse, error) {
	if err := a.count("Commit"); err != nil {
		return nil, err
	}
	r := &labi.CommitRequest{}
	if err := a.trip("CommitRequest", req, r); err != nil {
		return nil, err
	}
	res, err := a.Inner.Commit(r)
	if err != nil {
		return nil, err
	}
	out := &labi.CommitResponse{}
	return out, a.trip("CommitResponse", res, out)
}

func (a *ABILoop) Revert(req *labi.RevertRequest) (*labi.RevertResponse, error) {
	if err := a.count("Revert"); err != nil {
		return nil, err
	}
	r := &labi.RevertRequest{}
	if err := a.trip("RevertRequest", req, r); err != nil {
		return nil, err
	}
	res, err := a.Inner.Revert(r)
	if err != nil {
		return nil, err
	}
	out := &labi.RevertResponse{}
	return out, a.trip("RevertResponse", res, out)
}

func (a *ABILoop) Clear(req *labi.ClearRequest) (*labi.ClearResponse, error) {
	if err := a.count("Clear"); err != nil {
		return nil, err
	}
	return a.Inner.Clear(req)
}

func (a *ABILoop) Finalize(req *labi.FinalizeRequest) (*labi.FinalizeResponse, error) {
	if err := a.count("Finalize"); err != nil {
		return nil, err
	}
	return a.Inner.Finalize(req)
}

func (a *ABILoop) GetMetadata(req *labi.MetadataRequest) (*labi.MetadataResponse, error) {
	return a.Inner.GetMetadata(req)
}
func (a *ABILoop) Query(req *labi.QueryRequest) (*labi.QueryResponse, error) {
	return a.Inner.Query(req)
}
func (a *ABILoop) Prove(req *labi.ProveRequest) (*labi.ProveResponse, error) {
	return a.Inner.Prove(req)
}

var _ = codec.Hex{}
