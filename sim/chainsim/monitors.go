package chainsim

import (
	"bytes"
	"encoding/binary"
	"fmt"
	"github.com/LiskHQ/lisk-engine/pkg/trie/rmt"
	"os"
	"sort"
	"sync"

	"github.com/LiskHQ/lisk-engine/pkg/blockchain"
	"github.com/LiskHQ/lisk-engine/pkg/consensus"
	"github.com/LiskHQ/lisk-engine/pkg/consensus/liskbft"
	"github.com/LiskHQ/lisk-engine/pkg/generator"
	"github.com/LiskHQ/lisk-engine/pkg/p2p"

	"verif/sim/refmodel"
	"verif/sim/simkit"
	"verif/sim/simmod"
)

// Reporter receives oracle verdicts. The harness of one property fails on its own property's verdicts and only
// counts the others.
type Reporter func(property, oracle, witness, message string)

// Monitor bundles the oracles that ride on every chainsim run.
type Monitor struct {
	W      *World
	S      *Sim
	Tree   *Tree
	Report Reporter

	// per node (by node id; survives restarts)
	lastF       map[int]uint32
	nowF        map[int]uint32
	firstID     map[int]map[uint32]string // finalized height -> block id first served
	finalEvents map[int][][2]uint32
	raises      map[int]int
	stepApplied map[int][]*TreeBlock      // blocks applied in the current step
	dumps       map[int]map[string]dbDump // node -> tip id -> blockchain DB content when that tip was (last) reached
	pendingDel  map[int][]*consensus.EventBlockDeleteMessage

	// global (C01)
	finalized      map[uint32]string
	finalizedBy    map[uint32]string
	PremiseBroken  bool // an honest validator signed contradicting headers (C15's business): C01 issues no verdict
	OutsideTheorem bool // thresholds other than floor(2W/3)+1 in force
	Enabled        map[string]bool
	signed         map[string][]refmodel.BFTHeader // headers each honest validator key signed (read from the generator DB)
	expectOwn      map[int]bool
	tipOf          map[int]string // the tip of each node as its events tell it
	nonceBefore    map[int]map[string]uint64
	poolBefore     map[int][]*blockchain.Transaction // processable transactions of a node right before its generator ran
	vmu            sync.Mutex
	verdicts       [][4]string
	stepAppliedAny bool
}

type dbDump map[string][]byte

func NewMonitor(w *World, report Reporter) *Monitor {
	m := &Monitor{W: w, S: w.S, Tree: NewTree(w.P), Report: report, lastF: map[int]uint32{}, nowF: map[int]uint32{}, firstID: map[int]map[uint32]string{}, finalEvents: map[int][][2]uint32{}, raises: map[int]int{},
		stepApplied: map[int][]*TreeBlock{}, dumps: map[int]map[string]dbDump{}, pendingDel: map[int][]*consensus.EventBlockDeleteMessage{}, finalized: map[uint32]string{}, finalizedBy: map[uint32]string{},
		Enabled: map[string]bool{"C01": true, "C02": true, "C04": true, "C05": true, "C15": true, "C03": true, "C09": true, "C19": true, "C13": true}}
	for _, n := range w.S.Nodes {
		n.OnEventSync = m.onEventSync
	}
	w.OnRestart = func(n *Node) { m.afterRestart(n) }
	m.signed = map[string][]refmodel.BFTHeader{}
	m.expectOwn = map[int]bool{}
	w.S.Hooks.Forged = func(n *Node, _ *blockchain.Block) { m.onForged(n) }
	w.S.Hooks.NodeDied = func(n *Node, what string) {
		m.expectOwn[n.ID] = false
		m.stepApplied[n.ID] = nil
		m.pendingDel[n.ID] = nil
		delete(m.poolBefore, n.ID)
	}
	prevGossip := w.S.Hooks.Gossip
	w.S.Hooks.Gossip = func(to *Node, from p2p.PeerID, topic string, data []byte) {
		if prevGossip != nil {
			prevGossip(to, from, topic, data)
		}
		if topic == consensus.P2PEventPostBlock {
			if b, err := blockchain.NewBlock(data); err == nil {
				m.noteSignedBlock(b, "seen on the network")
			}
		}
	}
	for _, n := range w.S.Nodes {
		if n.IsAdversary {
			continue
		}
		n.OnHandOff = func(n *Node, b *blockchain.Block) {
			// "the largest height it ever generated is persisted before the block is handed on": at the hand-off the
			// generator's database must already hold the record of this very header (a crash right after the hand-off
			// must not let the restarted generator forget what it signed)
			simkit.Probe("c15_hand_off_checked")
			raw, ok := n.GeneratorDB.Get(append([]byte{0, 0}, b.Header.GeneratorAddress...))
			info := &generator.GeneratorInfo{}
			if ok {
				if err := info.Decode(raw); err != nil {
					ok = false
				}
			}
			if !ok || info.Height != b.Header.Height || info.MaxHeightGenerated != b.Header.MaxHeightGenerated || info.MaxHeightPrevoted != b.Header.MaxHeightPrevoted {
				m.report("C15", "persisted-before-hand-off", "generator-info", "%s hands on its block at height %d (maxHeightPrevoted %d, maxHeightGenerated %d) while its generator database holds %+v (present %v) for that key", n.Name, b.Header.Height, b.Header.MaxHeightPrevoted, b.Header.MaxHeightGenerated, *info, ok)
			}
		}
	}
	m.tipOf = map[int]string{}
	m.poolBefore = map[int][]*blockchain.Transaction{}
	m.nonceBefore = map[int]map[string]uint64{}
	w.S.Hooks.BeforeForge = func(n *Node) {
		if !n.IsAdversary {
			pool := n.Pool.GetProcessable()
			m.poolBefore[n.ID] = pool
			nonces := map[string]uint64{}
			for _, tx := range pool {
				a := string(tx.SenderAddress())
				if _, ok := nonces[a]; !ok {
					// the account nonce in the node's committed application state (state entries live under prefix 0)
					if v, ok := n.StateDB.Get(append([]byte{0}, simmod.AccountFullKey([]byte(a))...)); ok && len(v) == 8 {
						nonces[a] = binary.BigEndian.Uint64(v)
					} else {
						nonces[a] = 0
					}
				}
			}
			m.nonceBefore[n.ID] = nonces
		}
	}
	prevAfter := w.S.Hooks.AfterNodeStep
	w.S.Hooks.AfterNodeStep = func(n *Node, what string) {
		if prevAfter != nil {
			prevAfter(n, what)
		}
		m.afterStep(n, what)
	}
	return m
}

// report queues a verdict; it is raised on the simulator's goroutine at the end of the step (the observers run on
// the nodes' event goroutines).
func (m *Monitor) report(prop, oracle, witness, format string, args ...interface{}) {
	if !m.Enabled[prop] {
		return
	}
	m.vmu.Lock()
	m.verdicts = append(m.verdicts, [4]string{prop, oracle, witness, fmt.Sprintf(format, args...)})
	m.vmu.Unlock()
}

// Raise delivers queued verdicts to the reporter (first come first).
func (m *Monitor) Raise() {
	m.vmu.Lock()
	vs := m.verdicts
	m.verdicts = nil
	m.vmu.Unlock()
	for _, v := range vs {
		m.Report(v[0], v[1], v[2], v[3])
	}
}

func dumpDB(n *Node) dbDump {
	d := dbDump{}
	for _, e := range n.BlockchainDB.VerifDump() {
		d[string(e.K)] = e.V
	}
	// the application's state entries (prefix 0) and its (height, root) record (prefix 3) belong to "the exact previous
	// state" as well; tree nodes and revert diffs of the application are bookkeeping
	for _, e := range n.StateDB.VerifDump() {
		if len(e.K) > 0 && (e.K[0] == 0 || e.K[0] == 3) {
			d["app:"+string(e.K)] = e.V
		}
	}
	return d
}

// onEventSync runs while node n's executer is blocked in Publish: the node's databases are exactly as the
// operation that caused the event left them.
func (m *Monitor) onEventSync(n *Node, msg interface{}) {
	switch e := msg.(type) {
	case *consensus.EventBlockNewMessage:
		tb, err := m.Tree.Add(e.Block)
		if err != nil {
			m.report("C03", "tree", "orphan", "%s applied a block whose parent the simulator never saw applied: %v", n.Name, err)
			return
		}
		m.stepApplied[n.ID] = append(m.stepApplied[n.ID], tb)
		// whatever path a block takes (gossip, block sync, fast switch, restore), it is only ever appended to its parent
		if prev, ok := m.tipOf[n.ID]; ok && prev != string(e.Block.Header.PreviousBlockID) {
			m.report("C03", "unlinked-block-appended", "previousBlockID", "%s appended block %d/%s whose previousBlockID is %s on top of its tip %s", n.Name, e.Block.Header.Height, short(e.Block.Header.ID), short(e.Block.Header.PreviousBlockID), short([]byte(prev)))
		}
		m.tipOf[n.ID] = string(e.Block.Header.ID)
		if !n.IsAdversary {
			// the payload rules hold for every block an honest node appends, whichever way it came
			size := 0
			for i, tx := range e.Block.Transactions {
				size += tx.Size()
				if err := tx.Validate(); err != nil {
					m.report("C03", "invalid-payload-appended", "statically-invalid-transaction", "%s appended block %d/%s whose transaction %d (%s) is not statically valid: %v", n.Name, e.Block.Header.Height, short(e.Block.Header.ID), i, short(tx.ID), err)
				}
			}
			ids := make([][]byte, len(e.Block.Transactions))
			for i, tx := range e.Block.Transactions {
				ids[i] = tx.ID
			}
			if root := rmt.CalculateRoot(ids); !bytes.Equal(root, e.Block.Header.TransactionRoot) {
				m.report("C03", "invalid-payload-appended", "transaction-root-mismatch", "%s appended block %d/%s whose transaction root %s is not the root %s of its %d transactions", n.Name, e.Block.Header.Height, short(e.Block.Header.ID), short(e.Block.Header.TransactionRoot), short(root), len(ids))
			}
			if root := blockchain.BlockAssets(e.Block.Assets).GetRoot(); !bytes.Equal(root, e.Block.Header.AssetRoot) {
				m.report("C03", "invalid-payload-appended", "asset-root-mismatch", "%s appended block %d/%s whose asset root is not the root of its assets", n.Name, e.Block.Header.Height, short(e.Block.Header.ID))
			}
			if size > int(m.W.P.MaxTxSize) {
				m.report("C03", "invalid-payload-appended", "payload-over-size-limit", "%s appended block %d/%s whose payload is %d bytes, the limit is %d", n.Name, e.Block.Header.Height, short(e.Block.Header.ID), size, m.W.P.MaxTxSize)
			}
		}
		if m.expectOwn[n.ID] && m.isOwnKey(n, e.Block.Header.GeneratorAddress) {
			// the block this node generated in this step: its payload against the selection rule
			pool := m.poolBefore[n.ID]
			if len(pool) > 0 {
				simkit.Probe("c15_selection_checked_with_nonempty_pool")
			}
			if len(e.Block.Transactions) > 0 {
				simkit.Probe("c15_generated_block_carries_transactions")
			}
			if w, msg := CheckSelection(pool, e.Block.Transactions, int(m.W.P.MaxTxSize), m.nonceBefore[n.ID]); w != "" {
				m.report("C15", "transaction-selection", w, "%s generated block %d/%s with %d transactions (pool had %d processable): %s", n.Name, e.Block.Header.Height, short(e.Block.Header.ID), len(e.Block.Transactions), len(pool), msg)
			}
		}
		m.checkBFT(n, tb)
		m.checkFinalizedNow(n, tb)
		if m.Enabled["C05"] {
			if m.dumps[n.ID] == nil {
				m.dumps[n.ID] = map[string]dbDump{}
			}
			m.dumps[n.ID][tb.ID] = dumpDB(n)
			// a dump is only ever needed for the parent of a block that can still be removed: nothing below the
			// finalized height
			if f := n.Finalized(); f > 0 {
				for id := range m.dumps[n.ID] {
					if o := m.Tree.ByID[id]; o != nil && o.Header.Height+1 < f {
						delete(m.dumps[n.ID], id)
					}
				}
			}
		}
	case *consensus.EventBlockDeleteMessage:
		m.tipOf[n.ID] = string(e.Block.Header.PreviousBlockID)
		m.checkDelete(n, e.Block)
	case *consensus.EventBlockFinalizeMessage:
		m.finalEvents[n.ID] = append(m.finalEvents[n.ID], [2]uint32{e.Original, e.Next})
	}
}

func short(id []byte) string {
	if len(id) < 4 {
		return fmt.Sprintf("%x", id)
	}
	return fmt.Sprintf("%x", id[:4])
}

// afterStep evaluates the per-step invariants of node n and raises what the observers queued.
func (m *Monitor) afterStep(n *Node, what string) {
	defer m.Raise()
	if !n.Up {
		return
	}
	tip := n.Tip()
	tb := m.Tree.ByID[string(tip.ID)]
	applied := m.stepApplied[n.ID]
	m.stepApplied[n.ID] = nil
	if tb == nil {
		return
	}
	if m.expectOwn[n.ID] {
		m.expectOwn[n.ID] = false
		own := false
		for _, b := range applied {
			for _, v := range n.Keys {
				if bytes.Equal(v.Address, b.Header.GeneratorAddress) {
					own = true
				}
			}
		}
		if !own {
			m.report("C15", "own-block-accepted", "rejected", "%s generated a block at %v (step %q, %d blocks applied in the step, queue %d, crash armed %v) which its own block processing did not accept: %v", n.Name, m.S.Now(), what, len(applied), n.Exec.VerifQueueLen(), n.CrashArmed, n.Log.Tail(8))
		} else {
			simkit.Probe("own_block_accepted")
		}
	}
	if len(applied) == 0 && m.dumps[n.ID] != nil && m.dumps[n.ID][tb.ID] == nil && m.Enabled["C05"] {
		m.dumps[n.ID][tb.ID] = dumpDB(n)
	}
	m.checkFinality(n, tb, applied)
}

// ---- C02: BFT heights and weights equal the reference function of the header chain --------------------------------

func (m *Monitor) checkBFT(n *Node, tb *TreeBlock) {
	if !m.Enabled["C02"] {
		return
	}
	ref := tb.BFT
	store := n.Exec.VerifStore()
	v, err := liskbft.VerifDumpVotes(store)
	if err != nil {
		m.report("C02", "bft-store", "unreadable", "%s: BFT votes unreadable at tip %d: %v", n.Name, tb.Header.Height, err)
		return
	}
	where := fmt.Sprintf("%s at tip %d (%s)", n.Name, tb.Header.Height, short(tb.Header.ID))
	if v.MaxHeightPrevoted != ref.MaxHeightPrevoted || v.MaxHeightPrecommitted != ref.MaxHeightPrecommitted || v.MaxHeightCertified != ref.MaxHeightCertified {
		m.report("C02", "heights", "mismatch", "%s reports (prevoted,precommitted,certified)=(%d,%d,%d), the counting rules give (%d,%d,%d)", where,
			v.MaxHeightPrevoted, v.MaxHeightPrecommitted, v.MaxHeightCertified, ref.MaxHeightPrevoted, ref.MaxHeightPrecommitted, ref.MaxHeightCertified)
		return
	}
	if tb.Header.Height > m.Tree.Genesis.Header.Height {
		want := ref.WindowHeights()
		if len(v.Blocks) != len(want) {
			m.report("C02", "window", "length", "%s keeps %d blocks in the vote window, the rules keep %d", where, len(v.Blocks), len(want))
			return
		}
		for _, b := range v.Blocks {
			pv, pc, ok := ref.WeightsAt(b.Height)
			if !ok || pv != b.PrevoteWeight || pc != b.PrecommitWeight {
				m.report("C02", "weights", "mismatch", "%s: height %d has (prevote,precommit) weight (%d,%d), the rules give (%d,%d) [in window: %v]", where, b.Height, b.PrevoteWeight, b.PrecommitWeight, pv, pc, ok)
				return
			}
		}
	}
	act := ref.ActiveValidators()
	if len(act) != len(v.Validators) {
		m.report("C02", "validators", "set", "%s tracks %d active validators, the rules %d", where, len(v.Validators), len(act))
		return
	}
	for _, a := range v.Validators {
		mn, lp, ok := ref.VoteInfo(string(a.Address))
		if !ok || mn != a.MinActiveHeight || lp != a.LargestHeightPrecommit {
			m.report("C02", "validators", "voteinfo", "%s: validator %s has (minActive,largestPrecommit)=(%d,%d), the rules give (%d,%d) known=%v", where, short(a.Address), a.MinActiveHeight, a.LargestHeightPrecommit, mn, lp, ok)
			return
		}
	}
	// parameters for every height of the window and for the next block
	hs := append(ref.WindowHeights(), tb.Header.Height+1)
	for _, h := range hs {
		rp := ref.ParamsAt(h)
		if rp == nil {
			continue
		}
		p, err := n.Exec.GetBFTParameters(store, h)
		if err != nil {
			m.report("C02", "params", "missing", "%s: GetBFTParameters(%d) failed: %v", where, h, err)
			return
		}
		if p.PrevoteThreshold() != rp.PrevoteThreshold || p.PrecommitThreshold() != rp.PrecommitThreshold || p.CertificateThreshold() != rp.CertificateThreshold || len(p.Validators()) != len(rp.Weights) {
			m.report("C02", "params", "thresholds", "%s: parameters at height %d are (prevote %d, precommit %d, certificate %d, %d validators), the rules give (%d,%d,%d,%d)", where, h,
				p.PrevoteThreshold(), p.PrecommitThreshold(), p.CertificateThreshold(), len(p.Validators()), rp.PrevoteThreshold, rp.PrecommitThreshold, rp.CertificateThreshold, len(rp.Weights))
			return
		}
		for _, val := range p.Validators() {
			if rp.Weights[string(val.Address())] != val.BFTWeight() {
				m.report("C02", "params", "weights", "%s: validator %s has weight %d at height %d, the rules give %d", where, short(val.Address()), val.BFTWeight(), h, rp.Weights[string(val.Address())])
				return
			}
		}
	}
	froms, _ := liskbft.VerifParamHeights(store)
	want := ref.ParamFroms()
	if fmt.Sprint(froms) != fmt.Sprint(want) {
		m.report("C02", "params", "stored-keys", "%s stores parameter sets starting at %v, the rules keep %v", where, froms, want)
	}
	simkit.Probe("bft_compared")
	if len(want) > 1 {
		simkit.Probe("bft_param_change_in_force")
	}
	if tb.Header.Height > m.Tree.Genesis.Header.Height+uint32(3*m.W.P.BatchSize) {
		simkit.Probe("bft_chain_longer_than_window")
	}
}

// ---- C01 / C04: finality ---------------------------------------------------------------------------------------

// checkFinalizedNow: the stored finalized height, in the database state in which the block appears, is
// max(previous value, precommitted height after the block).
func (m *Monitor) checkFinalizedNow(n *Node, tb *TreeBlock) {
	if !m.Enabled["C04"] {
		return
	}
	f := n.Finalized()
	prev, seen := m.nowF[n.ID]
	if !seen {
		prev = m.Tree.Genesis.Header.Height
	}
	want := prev
	if tb.BFT.MaxHeightPrecommitted > want {
		want = tb.BFT.MaxHeightPrecommitted
	}
	if f != want {
		w := "not-raised"
		if f > want {
			w = "raised-too-far"
		}
		if f < prev {
			w = "decreased"
		}
		m.report("C04", "finalized-height", w, "%s: with block %d (%s) applied the stored finalized height is %d; previous value %d and the precommitted height %d after this block give %d", n.Name, tb.Header.Height, short(tb.Header.ID), f, prev, tb.BFT.MaxHeightPrecommitted, want)
	}
	if f > prev {
		m.raises[n.ID]++
	}
	m.nowF[n.ID] = f
}

func (m *Monitor) checkFinality(n *Node, tb *TreeBlock, applied []*TreeBlock) {
	f := n.Finalized()
	_, prec, _ := n.Heights()
	if m.Enabled["C04"] {
		prev, seen := m.lastF[n.ID]
		if seen && f < prev {
			m.report("C04", "finalized-height", "decreased", "%s: finalized height went from %d to %d", n.Name, prev, f)
		}
		_ = applied
		// one finalize event per raise, chained
		evs := m.finalEvents[n.ID]
		if seen && len(evs) != m.raises[n.ID] {
			m.report("C04", "finalize-events", "count", "%s: %d finalize events for %d raises of the finalized height", n.Name, len(evs), m.raises[n.ID])
		}
		if len(evs) > 0 && seen {
			last := evs[len(evs)-1]
			if last[1] != f && f > prev {
				m.report("C04", "finalize-events", "value", "%s: last finalize event says %d -> %d, stored finalized height is %d", n.Name, last[0], last[1], f)
			}
		}
		m.lastF[n.ID] = f
		// block ids at finalized heights never change
		if m.firstID[n.ID] == nil {
			m.firstID[n.ID] = map[uint32]string{}
		}
		check := []uint32{f}
		if f > 0 {
			check = append(check, f-1, uint32(m.S.Steps)%(f+1))
		}
		if seen {
			check = append(check, prev)
		}
		for _, h := range check {
			hd, err := n.Chain.DataAccess().GetBlockHeaderByHeight(h)
			if err != nil {
				m.report("C04", "finalized-block", "missing", "%s: block at finalized height %d cannot be loaded: %v", n.Name, h, err)
				continue
			}
			if old, ok := m.firstID[n.ID][h]; ok && old != string(hd.ID) {
				m.report("C04", "finalized-block", "replaced", "%s: block at finalized height %d changed from %s to %s", n.Name, h, short([]byte(old)), short(hd.ID))
			}
			m.firstID[n.ID][h] = string(hd.ID)
		}
		if f > prev && seen {
			simkit.Probe("finality_advanced")
		}
	}
	if m.Enabled["C01"] {
		// every height at or below the view's precommitted height is reported final by this view
		lo := uint32(0)
		if prec > 6 {
			lo = prec - 6 // the lower ones were recorded when they became final in this view
		}
		for h := lo; h <= prec; h++ {
			x := m.Tree.At(tb, h)
			if x == nil {
				continue
			}
			if old, ok := m.finalized[h]; ok && old != x.ID {
				switch {
				case m.PremiseBroken:
					simkit.Probe("c01_precondition_broken")
				case m.OutsideTheorem:
					simkit.Probe("c01_outside_theorem")
				default:
					m.report("C01", "finality-safety", "conflict", "height %d: %s reports block %s as final (precommitted height %d) but %s reported block %s as final", h, n.Name, short([]byte(x.ID)), prec, m.finalizedBy[h], short([]byte(old)))
				}
				continue
			}
			if _, ok := m.finalized[h]; !ok {
				m.finalized[h] = x.ID
				m.finalizedBy[h] = n.Name
			}
		}
	}
}

// ---- C05: deleting the tip restores the previous state -----------------------------------------------------------

var (
	pfxFinalized byte = 27
	pfxDiff      byte = 51
	pfxEvents    byte = 9
	pfxTemp      byte = 7
)

// checkDelete runs right after node n removed block b from its tip.
func (m *Monitor) checkDelete(n *Node, b *blockchain.Block) {
	if !m.Enabled["C05"] {
		return
	}
	parent := m.Tree.ByID[string(b.Header.PreviousBlockID)]
	if parent == nil || m.dumps[n.ID] == nil {
		return
	}
	// cached tip = database tip = parent
	if tip := n.Chain.LastBlock(); tip == nil || !bytes.Equal(tip.Header.ID, b.Header.PreviousBlockID) {
		m.report("C05", "cached-tip", "stale", "%s: after deleting block %d the cached tip is not its parent", n.Name, b.Header.Height)
	}
	// the ID index (database and cache) as it was before the block was applied: the removed block is not known by its ID
	// any more, its parent is
	da := n.Chain.DataAccess()
	if h, err := da.GetBlockHeader(b.Header.ID); err == nil && h != nil {
		m.report("C05", "id-index", "removed-block-still-served", "%s: after deleting block %d (%s) GetBlockHeader still returns it by its ID", n.Name, b.Header.Height, short(b.Header.ID))
	}
	if blk, err := da.GetBlock(b.Header.ID); err == nil && blk != nil {
		m.report("C05", "id-index", "removed-block-still-served", "%s: after deleting block %d (%s) GetBlock still returns it by its ID", n.Name, b.Header.Height, short(b.Header.ID))
	}
	if hs, err := da.GetBlockHeaders([][]byte{b.Header.ID}); err == nil && len(hs) > 0 {
		m.report("C05", "id-index", "removed-block-still-served", "%s: after deleting block %d (%s) GetBlockHeaders still returns it by its ID", n.Name, b.Header.Height, short(b.Header.ID))
	}
	if h, err := da.GetBlockHeader(b.Header.PreviousBlockID); err != nil || h == nil || h.Height+1 != b.Header.Height {
		m.report("C05", "id-index", "parent-not-served", "%s: after deleting block %d its parent %s is not served by its ID (%v)", n.Name, b.Header.Height, short(b.Header.PreviousBlockID), err)
	}
	if h, err := da.GetBlockHeaderByHeight(b.Header.Height); err == nil && h != nil {
		m.report("C05", "height-index", "removed-height-still-served", "%s: after deleting block %d GetBlockHeaderByHeight(%d) still returns %s", n.Name, b.Header.Height, b.Header.Height, short(h.ID))
	}
	simkit.Probe("c05_lookups_by_id_and_height_checked_after_delete")
	want, ok := m.dumps[n.ID][parent.ID]
	got := dumpDB(n)
	m.dumps[n.ID][parent.ID] = got
	if !ok {
		return
	}
	f := n.Finalized()
	if n.SaveTempAsked[string(b.Header.ID)] {
		// "removed blocks are kept retrievable as temporary blocks when requested"
		delete(n.SaveTempAsked, string(b.Header.ID))
		hk := []byte{pfxTemp, byte(b.Header.Height >> 24), byte(b.Header.Height >> 16), byte(b.Header.Height >> 8), byte(b.Header.Height)}
		if g, ok := got[string(hk)]; !ok || !bytes.Equal(g, b.Encode()) {
			m.report("C05", "temp-block", "not-kept", "%s: the synchronization removed block %d (%s) asking to keep it as a temporary block; the temporary store holds %d bytes of something else (present=%v) at that height", n.Name, b.Header.Height, short(b.Header.ID), len(g), ok)
		}
		simkit.Probe("temp_block_requested_and_checked")
	}
	keys := map[string]bool{}
	for k := range got {
		keys[k] = true
	}
	for k := range want {
		keys[k] = true
	}
	var ks []string
	for k := range keys {
		ks = append(ks, k)
	}
	sort.Strings(ks)
	var diffs []string
	for _, k := range ks {
		g, gok := got[k]
		w, wok := want[k]
		if gok == wok && bytes.Equal(g, w) {
			continue
		}
		kb := []byte(k)
		switch kb[0] {
		case pfxFinalized:
			if gok && wok && be32(g) >= be32(w) {
				continue // monotone marker
			}
		case pfxDiff:
			if len(kb) == 5 && be32(kb[1:]) < f {
				continue // revert diffs below the finalized height are pruned
			}
		case pfxEvents:
			if len(kb) == 5 && be32(kb[1:]) <= f {
				continue // events are pruned only below the finalized height (and only outside the retention window)
			}
		case pfxTemp:
			if gok && len(kb) == 5 {
				if be32(kb[1:]) == b.Header.Height && bytes.Equal(g, b.Encode()) {
					simkit.Probe("temp_block_kept")
					continue
				}
				if wok == false || !bytes.Equal(g, w) {
					// temp blocks of other heights written by the same sync session
					continue
				}
			}
			if !gok && wok {
				continue // temp blocks are cleared after a successful sync
			}
		}
		diffs = append(diffs, fmt.Sprintf("key %x: now present=%v (%d bytes), before the block present=%v (%d bytes)", kb, gok, len(g), wok, len(w)))
	}
	if len(diffs) > 0 {
		if len(diffs) > 6 {
			diffs = diffs[:6]
		}
		m.report("C05", "delete-restores", "db-differs", "%s: after deleting block %d (%s, %d transactions) the blockchain DB differs from its content before that block was applied: %v", n.Name, b.Header.Height, short(b.Header.ID), len(b.Transactions), diffs)
	}
	simkit.Probe("delete_compared")
}

func be32(b []byte) uint32 {
	if len(b) < 4 {
		return 0
	}
	return uint32(b[0])<<24 | uint32(b[1])<<16 | uint32(b[2])<<8 | uint32(b[3])
}

// afterRestart: what a node serves after a restart must continue what it served before (C04), and its consensus
// state must match its tip (C13 checks the crash points themselves).
func (m *Monitor) afterRestart(n *Node) {
	defer m.Raise()
	tip := n.Tip()
	m.tipOf[n.ID] = string(tip.ID)
	// a process killed in the middle of a step may have committed a block durably without having announced it: the
	// restarted node stands on blocks the observers never saw applied. Take them from its database.
	var missing []*blockchain.Block
	for h := tip.Height; ; h-- {
		b, err := n.Chain.DataAccess().GetBlockByHeight(h)
		if err != nil || m.Tree.ByID[string(b.Header.ID)] != nil {
			break
		}
		missing = append(missing, b)
		if h == 0 {
			break
		}
	}
	for i := len(missing) - 1; i >= 0; i-- {
		simkit.Probe("block_committed_by_a_killed_process_learned_at_restart")
		if _, err := m.Tree.Add(missing[i]); err != nil {
			break
		}
	}
	tb := m.Tree.ByID[string(tip.ID)]
	f := n.Finalized()
	if prev, ok := m.nowF[n.ID]; ok && f < prev && m.Enabled["C04"] {
		// a power loss may lose the last blocks, but never a finalized height that was stored durably; the marker
		// is written in the same synced batch as the block, so after any restart it is at least the value that was
		// durable with the tip the node restarts on
		if tb != nil && f < tb.BFT.MaxHeightPrecommitted {
			m.report("C04", "finalized-height", "behind-after-restart", "%s restarted on tip %d with finalized height %d below the precommitted height %d of that chain", n.Name, tip.Height, f, tb.BFT.MaxHeightPrecommitted)
		}
	}
	if m.Enabled["C04"] && tb != nil {
		// ... and never more: the finalized height is raised in the step that applies the block causing the raise, so
		// what a restarted node holds is explained by what it held when last seen or by the chain it stands on
		prev, ok := m.nowF[n.ID]
		if !ok {
			prev = m.Tree.Genesis.Header.Height
		}
		if f > prev && f > tb.BFT.MaxHeightPrecommitted {
			m.report("C04", "finalized-height", "raised-without-its-block", "%s restarted on tip %d (%s) with finalized height %d; it held %d when last seen and the precommitted height of the chain it stands on is %d", n.Name, tip.Height, short(tip.ID), f, prev, tb.BFT.MaxHeightPrecommitted)
		}
		simkit.Probe("restart_finalized_height_explained")
	}
	m.nowF[n.ID] = f
	m.lastF[n.ID] = f
	m.raises[n.ID] = len(m.finalEvents[n.ID])
	if tb != nil {
		m.vmu.Lock()
		before := len(m.verdicts)
		m.vmu.Unlock()
		m.checkBFT(n, tb)
		// a consensus store that does not belong to the tip right after a restart is also C13's business
		m.vmu.Lock()
		for _, v := range m.verdicts[before:] {
			if v[0] == "C02" {
				m.verdicts = append(m.verdicts, [4]string{"C13", "consensus-state-after-restart", v[2], v[3]})
			}
		}
		m.vmu.Unlock()
	}
	if m.firstID[n.ID] != nil {
		for h, old := range m.firstID[n.ID] {
			if h > f {
				continue
			}
			hd, err := n.Chain.DataAccess().GetBlockHeaderByHeight(h)
			if err != nil {
				m.report("C04", "finalized-block", "missing-after-restart", "%s: block at finalized height %d cannot be loaded after restart: %v", n.Name, h, err)
				continue
			}
			if string(hd.ID) != old {
				m.report("C04", "finalized-block", "replaced-after-restart", "%s: block at finalized height %d changed across a restart", n.Name, h)
			}
		}
	}
	m.Integrity(n, "after-restart")
	simkit.Probe("restart_checked")
}

// onForged records the header the node's generator just signed (the generator DB keeps height, maxHeightPrevoted and
// maxHeightGenerated of the last block per validator) and checks the C15 clause "a generator never signs two
// contradicting headers". A broken clause also removes C01's premise for the rest of the run.
func (m *Monitor) onForged(n *Node) {
	if n.IsAdversary {
		return
	}
	defer m.Raise()
	m.expectOwn[n.ID] = true
	for _, v := range n.Keys {
		key := append([]byte{0, 0}, v.Address...)
		raw, ok := n.GeneratorDB.Get(key)
		if !ok {
			continue
		}
		info := &generator.GeneratorInfo{}
		if err := info.Decode(raw); err != nil {
			continue
		}
		h := refmodel.BFTHeader{Height: info.Height, Generator: string(v.Address), MaxHeightGenerated: info.MaxHeightGenerated, MaxHeightPrevoted: info.MaxHeightPrevoted}
		list := m.signed[string(v.Address)]
		dup := false
		for _, o := range list {
			if o == h {
				dup = true
			}
		}
		if dup {
			continue
		}
		for _, o := range list {
			if refmodel.Contradicting(o, h) {
				m.PremiseBroken = true
				simkit.Probe("honest_generator_contradicted_itself")
				m.report("C15", "self-contradiction", "signed-headers", "validator %s on %s signed header (height %d, maxHeightPrevoted %d, maxHeightGenerated %d) which contradicts its earlier header (height %d, maxHeightPrevoted %d, maxHeightGenerated %d)",
					short(v.Address), n.Name, h.Height, h.MaxHeightPrevoted, h.MaxHeightGenerated, o.Height, o.MaxHeightPrevoted, o.MaxHeightGenerated)
				if os.Getenv("VERIF_ALSO") != "" {
					fmt.Printf("signed so far: %+v\n", list)
				}
				break
			}
		}
		m.signed[string(v.Address)] = append(list, h)
	}
}

// noteSignedBlock records the header of a block that carries a valid signature of an honest validator's key - wherever
// it was seen - and compares it with everything that key signed before: the generator's own record in its database
// is only one witness of what was signed (a header that left the node before the record was written is another).
func (m *Monitor) noteSignedBlock(b *blockchain.Block, where string) {
	var val *Validator
	for _, v := range m.W.Vals {
		if string(v.Address) == string(b.Header.GeneratorAddress) {
			val = v
		}
	}
	if val == nil || val.Byzantine || !b.Header.VerifySignature(m.W.P.ChainID, val.GenPub) {
		return
	}
	h := refmodel.BFTHeader{Height: b.Header.Height, Generator: string(val.Address), MaxHeightGenerated: b.Header.MaxHeightGenerated, MaxHeightPrevoted: b.Header.MaxHeightPrevoted}
	list := m.signed[string(val.Address)]
	for _, o := range list {
		if o == h {
			return
		}
	}
	for _, o := range list {
		if refmodel.Contradicting(o, h) {
			m.PremiseBroken = true
			simkit.Probe("honest_generator_contradicted_itself")
			m.report("C15", "self-contradiction", "signed-headers", "validator %s signed header (height %d, maxHeightPrevoted %d, maxHeightGenerated %d; %s) which contradicts its earlier header (height %d, maxHeightPrevoted %d, maxHeightGenerated %d)",
				short(val.Address), h.Height, h.MaxHeightPrevoted, h.MaxHeightGenerated, where, o.Height, o.MaxHeightPrevoted, o.MaxHeightGenerated)
			break
		}
	}
	m.signed[string(val.Address)] = append(list, h)
}

func (m *Monitor) isOwnKey(n *Node, addr []byte) bool {
	for _, v := range n.Keys {
		if string(v.Address) == string(addr) {
			return true
		}
	}
	return false
}
