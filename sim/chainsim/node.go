package chainsim

import (
	"context"
	"fmt"
	"time"

	"github.com/LiskHQ/lisk-engine/pkg/blockchain"
	"github.com/LiskHQ/lisk-engine/pkg/consensus"
	"github.com/LiskHQ/lisk-engine/pkg/db"
	"github.com/LiskHQ/lisk-engine/pkg/engine/config"
	"github.com/LiskHQ/lisk-engine/pkg/framework"
	fconfig "github.com/LiskHQ/lisk-engine/pkg/framework/config"
	"github.com/LiskHQ/lisk-engine/pkg/generator"
	"github.com/LiskHQ/lisk-engine/pkg/labi"
	"github.com/LiskHQ/lisk-engine/pkg/p2p"
	"github.com/LiskHQ/lisk-engine/pkg/statemachine"
	"github.com/LiskHQ/lisk-engine/pkg/txpool"

	"verif/sim/simfs"
	"verif/sim/simmod"
)

// ChainParams are the parameters all nodes of a run share.
type ChainParams struct {
	ChainID       []byte
	GenesisHeight uint32 // height of the genesis block (a chain may start above 0, e.g. after a migration)
	BlockTime     uint32
	BatchSize     int
	MaxTxSize     uint32
	MaxBlockCache int
	KeepEvents    int
	Pool          txpool.TransactionPoolConfig
	Module        *simmod.Config
	Genesis       *blockchain.Block
	DBKnobs       db.VerifOpts
}

// Node is one whole engine + application on its own simulated disk.
type Node struct {
	ID          int
	Name        string
	Peer        p2p.PeerID
	P           *ChainParams
	Disk        *simfs.Disk
	FS          *simfs.FS
	Up          bool
	Hung        bool
	IsAdversary bool // the adversary's shadow node: its publications are intercepted
	Skew        time.Duration
	// StalledUntil: the node's process is suspended (VM pause, swap storm) until this simulated instant: it runs no
	// step, answers no request; what the network delivers meanwhile waits in its buffers
	StalledUntil time.Duration
	// MutedUntil: what the node publishes (own blocks, commits, forwarded gossip) reaches nobody until this instant
	// (one-way trouble: it still hears everybody and answers requests)
	MutedUntil time.Duration
	// SaveTempAsked: ids of the blocks whose removal the synchronization asked to keep as temporary blocks
	SaveTempAsked map[string]bool
	Keys          []*Validator // validators this node generates for
	Log           *ringLogger
	Starts        int

	BlockchainDB, GeneratorDB, StateDB, ModuleDB *db.DB
	Chain                                        *blockchain.Chain
	Conn                                         *p2p.Connection
	Exec                                         *consensus.Executer
	Pool                                         *txpool.TransactionPool
	Gen                                          *generator.Generator
	GenCfg                                       *config.Config // the configuration the generator reads its payload limit from
	Handler                                      *framework.ABIHandler
	ABI                                          *ABILoop
	events                                       chan interface{}
	done                                         chan struct{}
	cancel                                       context.CancelFunc
	Transport                                    p2p.VerifTransport
	// OnEventSync is called synchronously with the executer (which is blocked meanwhile) for every event it publishes.
	OnEventSync func(n *Node, msg interface{})
	OnOpen      func(fs *simfs.FS)
	// CrashArmed: the disk has a crash point armed; node steps run as "the process" and may die in the middle
	CrashArmed        bool
	crashK, crashTear int
	armPending        bool
	onDied            func()
	// AlwaysCrashable: every step of this node runs as a killable process, so that a crash point can be armed from
	// inside a step for that same step; ArmThisStepOnly calls the kill off if the step ends before reaching it
	AlwaysCrashable bool
	ArmThisStepOnly bool
	CrashPower      bool // power loss (un-synced data dropped) rather than a process kill
	// OnHandOff is called when the node's generator hands a block it signed to the consensus loop (before it is queued)
	OnHandOff func(n *Node, b *blockchain.Block)
}

var dbDirs = []string{"/data/blockchain.db", "/data/generator.db", "/data/state.db", "/data/module.db"}

func NewNode(id int, p *ChainParams, tr p2p.VerifTransport) *Node {
	n := &Node{ID: id, Name: fmt.Sprintf("n%d", id), Peer: p2p.PeerID(fmt.Sprintf("peer-n%d", id)), P: p, Disk: simfs.NewDisk(), Transport: tr}
	for _, d := range dbDirs {
		if err := n.Disk.MkdirDurable(d); err != nil {
			panic(err)
		}
	}
	n.Log = newRingLogger(n.Name)
	return n
}

// Start opens the databases and wires the engine the way engine.Engine.Start does (without the Start loops: the
// simulator calls their branches as events).
func (n *Node) Start() (err error) {
	if n.done != nil {
		close(n.done)
	}
	n.done = make(chan struct{})
	n.FS = n.Disk.Open()
	if n.OnOpen != nil {
		n.OnOpen(n.FS) // a harness may arm a crash point for the recovery itself
	}
	fs := n.FS
	knobs := n.P.DBKnobs
	if knobs.MemTableSize == 0 {
		// pebble allocates memtables and block cache outside the Go heap and frees them on Close only; a generation
		// that was killed never closes, so the defaults (4 MB + 8 MB per database) would add up over thousands of runs
		knobs.MemTableSize = 512 << 10
	}
	if knobs.CacheSize == 0 {
		knobs.CacheSize = 256 << 10
	}
	knobs.Fatal = func(msg string) { fs.Die("pebble fatal: " + msg) }
	open := func(path string) *db.DB {
		if err != nil {
			return nil
		}
		var d *db.DB
		d, err = db.NewDBWithFS(path, n.FS, knobs)
		return d
	}
	n.BlockchainDB = open(dbDirs[0])
	n.GeneratorDB = open(dbDirs[1])
	n.StateDB = open(dbDirs[2])
	n.ModuleDB = open(dbDirs[3])
	if err != nil {
		return err
	}
	ctx, cancel := context.WithCancel(context.Background())
	n.cancel = cancel
	// application
	sm := statemachine.NewExecuter()
	sm.Init(n.Log)
	mod := simmod.New(n.P.Module)
	if err := sm.AddModule(mod); err != nil {
		return err
	}
	n.Handler = framework.NewABIHandler(ctx, &fconfig.ApplicationConfig{}, n.Log, sm, n.P.Genesis, n.StateDB, n.ModuleDB, []framework.Module{mod})
	if n.ABI == nil {
		n.ABI = &ABILoop{}
	}
	n.ABI.Inner = n.Handler
	// engine
	n.Conn = p2p.NewConnection(n.Log, &p2p.Config{Version: "1.0", ChainID: n.P.ChainID})
	n.Conn.VerifAttach(n.Peer, n.Transport)
	// the adversary's shadow nodes run a "modified client" that takes payloads up to four times the chain's limit, so that
	// the adversary can build on its own oversized blocks; honest nodes have the chain's limit
	maxPayload := n.P.MaxTxSize
	if n.IsAdversary {
		maxPayload *= 4
	}
	n.Chain = blockchain.NewChain(&blockchain.ChainConfig{ChainID: n.P.ChainID, MaxTransactionsLength: maxPayload, MaxBlockCache: n.P.MaxBlockCache, KeepEventsForHeights: n.P.KeepEvents})
	n.Chain.Init(n.P.Genesis, n.BlockchainDB)
	n.Exec = consensus.NewExecuter(&consensus.ExecuterConfig{CTX: ctx, ABI: n.ABI, Chain: n.Chain, Conn: n.Conn, BlockTime: n.P.BlockTime, BatchSize: n.P.BatchSize})
	poolCfg := n.P.Pool
	n.Pool = txpool.NewTransactionPool(&poolCfg)
	n.Gen = generator.NewGenerator(&generator.GeneratorParams{ABI: n.ABI, Consensus: &eagerConsensus{Executer: n.Exec, n: n}, Pool: n.Pool, Chain: n.Chain})
	if _, err := n.ABI.Clear(&labi.ClearRequest{}); err != nil {
		return err
	}
	if err := n.Exec.Init(&consensus.ExecuterInitParam{CTX: ctx, Logger: n.Log, Database: n.BlockchainDB, GenesisBlock: n.P.Genesis}); err != nil {
		return fmt.Errorf("executer init: %w", err)
	}
	n.SaveTempAsked = map[string]bool{}
	n.Exec.VerifObserveSyncDeletes(func(b *blockchain.Block, saveTemp bool) {
		if saveTemp {
			n.SaveTempAsked[string(b.Header.ID)] = true
		}
	})
	if err := n.Pool.Init(ctx, n.Log, n.BlockchainDB, n.Chain, n.Conn, n.ABI); err != nil {
		return err
	}
	ecfg := &config.Config{Genesis: &config.GenesisConfig{ChainID: n.P.ChainID, BlockTime: n.P.BlockTime, MaxTransactionsSize: n.P.MaxTxSize, BFTBatchSize: uint32(n.P.BatchSize)},
		Generator: &config.GeneratorConfig{Keys: &config.KeysConfig{}}, System: &config.SystemConfig{}}
	n.GenCfg = ecfg
	if err := n.Gen.Init(&generator.GeneratorInitParams{CTX: ctx, Cfg: ecfg, Logger: n.Log, BlockchainDB: n.BlockchainDB, GeneratorDB: n.GeneratorDB}); err != nil {
		return err
	}
	for _, v := range n.Keys {
		n.Gen.EnableGeneration(v.Address, v.PlainKeys())
	}
	// one buffered subscription for everything the executer publishes (the generator's and the RPC layer's
	// subscriptions in the real engine); drained by the simulator after every call into the node
	n.events = make(chan interface{}, 8192)
	for _, topic := range []string{consensus.EventBlockNew, consensus.EventBlockDelete, consensus.EventBlockFinalize, consensus.EventValidatorsChange, consensus.EventNetworkBlockNew, consensus.EventChainFork} {
		// a synchronous observer first: Publish sends to the subscribers one after the other, so while the observer
		// goroutine works on a message (between taking it from a and taking the copy from b) the executer is blocked
		// in Publish and the node's state is exactly the state right after the operation that caused the event
		a, b := make(chan interface{}), make(chan interface{})
		n.Exec.VerifEvents().On(topic, a)
		n.Exec.VerifEvents().On(topic, b)
		done := n.done
		go func() {
			for {
				select {
				case m := <-a:
					if n.OnEventSync != nil {
						n.OnEventSync(n, m)
					}
					select {
					case <-b:
					case <-done:
						return
					}
				case <-done:
					return // the process generation ended: its observers go with it (and release what they hold)
				}
			}
		}()
		n.Exec.VerifEvents().On(topic, n.events)
	}
	last := n.Chain.LastBlock()
	if _, err := n.ABI.Init(&labi.InitRequest{ChainID: n.P.ChainID, LastBlockHeight: last.Header.Height, LastStateRoot: last.Header.StateRoot}); err != nil {
		return fmt.Errorf("abi init: %w", err)
	}
	n.Up = true
	n.Starts++
	return nil
}

// DrainEvents returns what the executer published since the last call, in order.
func (n *Node) DrainEvents() []interface{} {
	var out []interface{}
	for {
		select {
		case m := <-n.events:
			out = append(out, m)
		default:
			return out
		}
	}
}

// Stop ends the node. graceful: databases are closed; otherwise the process is killed (power: un-synced data lost).
func (n *Node) Stop(graceful, power bool) {
	n.StalledUntil = 0
	if !n.Up {
		return
	}
	n.Up = false
	n.CrashArmed = false
	n.armPending = false
	if n.FS != nil {
		n.FS.Disarm() // the simulator itself closes the databases below: no armed crash point may fire in that
	}
	n.cancel()
	if n.done != nil {
		close(n.done)
		n.done = nil
	}
	if graceful {
		for _, d := range []*db.DB{n.BlockchainDB, n.GeneratorDB, n.StateDB, n.ModuleDB} {
			_ = d.VerifClose()
		}
		n.Disk.Kill()
		return
	}
	if power {
		n.Disk.PowerLoss()
	} else {
		n.Disk.Kill()
	}
}

// Tip is the node's current tip header.
func (n *Node) Tip() *blockchain.BlockHeader { return n.Chain.LastBlock().Header }

// Heights returns (prevoted, precommitted, certified) from the node's BFT store.
func (n *Node) Heights() (uint32, uint32, uint32) {
	a, b, c, err := n.Exec.GetBFTHeights(n.Exec.VerifStore())
	if err != nil {
		panic(fmt.Sprintf("%s: GetBFTHeights: %v", n.Name, err))
	}
	return a, b, c
}

func (n *Node) Finalized() uint32 {
	f, err := n.Chain.DataAccess().GetFinalizedHeight()
	if err != nil {
		panic(fmt.Sprintf("%s: GetFinalizedHeight: %v", n.Name, err))
	}
	return f
}

// eagerConsensus is the executer as the generator sees it: the hand-off of a generated block (AddInternal) is an
// observation point. (Letting the consensus loop take the block at that very moment, as a concurrent executer goroutine
// could, was tried and dropped: the generator still holds the application's execution context at that point, block
// execution fails with "state machine is already initialized" and the block is lost - see DESIGN 10.5.)
type eagerConsensus struct {
	*consensus.Executer
	n *Node
}

func (e *eagerConsensus) AddInternal(block *blockchain.Block) {
	if e.n.OnHandOff != nil {
		e.n.OnHandOff(e.n, block)
	}
	e.Executer.AddInternal(block)
}
