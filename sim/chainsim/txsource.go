package chainsim

import (
	"bytes"
	"context"
	"crypto/sha256"
	"fmt"
	"sort"
	"time"

	"github.com/LiskHQ/lisk-engine/pkg/blockchain"
	"github.com/LiskHQ/lisk-engine/pkg/codec"
	"github.com/LiskHQ/lisk-engine/pkg/crypto"
	"github.com/LiskHQ/lisk-engine/pkg/p2p"
	"github.com/LiskHQ/lisk-engine/pkg/txpool"

	"verif/sim/simkit"
	"verif/sim/simmod"
)

// TxSource is the client workload: accounts sending transactions of the simulation module (small programs writing,
// deleting and emitting events) with consecutive nonces, now and then a nonce gap, a replacement with a higher fee, or a
// transaction sized so that the processable transactions of one node fill a block payload exactly to the limit. Every
// transaction has its own integer fee priority (fee = priority x size), so that the generator's priority queue has no
// ties and a run stays a function of the seed. Transactions reach each node through the pool's gossip validator and
// handler, each with some probability, so that pools differ.
type TxSource struct {
	W        *World
	S        *Sim
	accounts []*txAccount
	prio     uint64
	Sent     int
}

type txAccount struct {
	pub   []byte
	addr  []byte
	nonce uint64
}

func NewTxSource(w *World, every time.Duration) *TxSource {
	ts := &TxSource{W: w, S: w.S, prio: 10}
	na := simkit.Int(w.T, "txaccounts", 2, 6)
	for i := 0; i < na; i++ {
		h := sha256.Sum256([]byte(fmt.Sprintf("chainsim-account-%d", i)))
		pub := h[:]
		ts.accounts = append(ts.accounts, &txAccount{pub: pub, addr: crypto.GetAddress(pub)})
	}
	var tick func()
	tick = func() {
		ts.act()
		w.S.At(every, "transaction source", tick)
	}
	w.S.At(every, "transaction source", tick)
	return ts
}

func (ts *TxSource) program(size int) []byte {
	t := ts.W.T
	var prog []simmod.Instr
	n := simkit.Int(t, "txinstr", 0, 3)
	if simkit.Chance(t, "txpattern", 1, 5) {
		// one key touched several times by one transaction: removed and written again, written twice, ...
		n = 0
		pat := [][]byte{{simmod.OpDel, simmod.OpSet}, {simmod.OpSet, simmod.OpSet}, {simmod.OpDel, simmod.OpSet, simmod.OpDel}, {simmod.OpSet, simmod.OpDel}}[simkit.Int(t, "txpat", 0, 3)]
		store, sub, key := byte(1+simkit.Int(t, "txstore", 0, 1)), byte(simkit.Int(t, "txsub", 0, 1)), []byte{byte(simkit.Int(t, "txkey", 0, 5))}
		for _, op := range pat {
			prog = append(prog, simmod.Instr{Op: op, Store: store, Sub: sub, Key: key, Val: simkit.Bytes(t, "txval", 0, 6)})
		}
		simkit.Probe("tx_touching_one_key_repeatedly")
	}
	for i := 0; i < n; i++ {
		op := []byte{simmod.OpSet, simmod.OpSet, simmod.OpDel, simmod.OpEvent, simmod.OpEventU}[simkit.Int(t, "txop", 0, 4)]
		prog = append(prog, simmod.Instr{Op: op, Store: byte(1 + simkit.Int(t, "txstore", 0, 1)), Sub: byte(simkit.Int(t, "txsub", 0, 1)),
			Key: []byte{byte(simkit.Int(t, "txkey", 0, 5))}, Val: simkit.Bytes(t, "txval", 0, 6)})
	}
	switch k := simkit.Int(t, "txending", 0, 19); {
	case k < 3:
		// the command fails after its instructions: the transaction stays valid (and goes into blocks), its effects do not
		prog = append(prog, simmod.Instr{Op: simmod.OpFail})
		simkit.Probe("tx_with_failing_command")
	case k == 3:
		// verifies, but its execution is INVALID (refused by the hook after the command, with the nonce already raised and
		// the command's writes staged): generators must leave it out, drop its sender and keep none of its effects
		prog = append(prog, simmod.Instr{Op: simmod.OpInvalidAfter})
		simkit.Probe("tx_verifying_but_invalid_at_execution")
	}
	out := simmod.EncodeProgram(prog)
	// padding: a value-less Set of key ff with a long value would change state; use trailing OpEnd + filler instruction
	// (OpEnd stops execution, what follows is never run but must decode)
	if size > len(out)+6 {
		out = append(out, simmod.EncodeProgram([]simmod.Instr{{Op: simmod.OpEnd}})...)
		rest := size - len(out)
		for rest > 0 {
			l := rest - 6
			if l > 200 {
				l = 200
			}
			if l < 0 {
				l = 0
			}
			out = append(out, simmod.EncodeProgram([]simmod.Instr{{Op: simmod.OpEnd, Val: bytes.Repeat([]byte{0xaa}, l)}})...)
			rest = size - len(out)
			if rest <= 6 {
				break
			}
		}
	}
	return out
}

func (ts *TxSource) build(a *txAccount, nonce uint64, paramSize int) *blockchain.Transaction {
	tx := &blockchain.Transaction{Module: simmod.Name, Command: simmod.CommandName, Nonce: nonce, Fee: 0, SenderPublicKey: a.pub, Params: ts.program(paramSize),
		Signatures: []codec.Hex{bytes.Repeat([]byte{byte(nonce)}, 64)}}
	ts.prio++
	// fee = priority x size; the fee field's own varint length changes the size, so settle in two rounds
	for i := 0; i < 3; i++ {
		tx.Init()
		tx.Fee = ts.prio * uint64(tx.Size())
	}
	tx.Init()
	if tx.Fee != ts.prio*uint64(tx.Size()) {
		tx.Fee = ts.prio * uint64(tx.Size())
		tx.Init()
	}
	return tx
}

func (ts *TxSource) act() {
	t := ts.W.T
	k := simkit.Int(t, "txburst", 0, 3)
	for i := 0; i < k; i++ {
		a := ts.accounts[simkit.Int(t, "txsender", 0, len(ts.accounts)-1)]
		nonce := a.nonce
		kind := simkit.Int(t, "txkind", 0, 9)
		var tx *blockchain.Transaction
		switch {
		case kind == 0:
			nonce = a.nonce + 1 + uint64(simkit.Int(t, "txgap", 0, 1)) // a gap: stays unprocessable until filled
			tx = ts.build(a, nonce, simkit.Int(t, "txsize", 0, 120))
			simkit.Probe("tx_with_nonce_gap")
		case kind == 1 && a.nonce > 0:
			nonce = a.nonce - 1 // replacement (higher priority by construction) or stale
			tx = ts.build(a, nonce, simkit.Int(t, "txsize", 0, 120))
			simkit.Probe("tx_replacement_or_stale")
		case kind == 2:
			tx = ts.filler(a)
			if tx == nil {
				tx = ts.build(a, nonce, simkit.Int(t, "txsize", 0, 400))
			}
			a.nonce++
		default:
			tx = ts.build(a, nonce, simkit.Int(t, "txsize", 0, 400))
			a.nonce++
		}
		ts.Sent++
		simkit.Probe("transaction_sent")
		payload := tx.Encode()
		for _, n := range ts.S.Nodes {
			if !n.Up || !simkit.Chance(t, "txreach", 4, 5) {
				continue
			}
			n := n
			ts.S.Step(n, "transaction", func() {
				if n.Conn.VerifValidate(context.Background(), txpool.RPCEventPostTransactionAnnouncement, payload) == p2p.ValidationAccept {
					n.Conn.VerifHandleEvent("peer-client", txpool.RPCEventPostTransactionAnnouncement, payload)
				}
			})
		}
	}
}

// filler builds a transaction that makes the processable transactions of some node add up to the payload limit exactly.
func (ts *TxSource) filler(a *txAccount) *blockchain.Transaction {
	var ups []*Node
	for _, n := range ts.S.Nodes {
		if n.Up && !n.IsAdversary {
			ups = append(ups, n)
		}
	}
	if len(ups) == 0 {
		return nil
	}
	n := ups[simkit.Int(ts.W.T, "fillernode", 0, len(ups)-1)]
	total := 0
	for _, tx := range n.Pool.GetProcessable() {
		total += tx.Size()
	}
	want := int(ts.W.P.MaxTxSize) - total
	if want < 140 || want > 1500 {
		return nil
	}
	size := want - 130
	for try := 0; try < 6; try++ {
		tx := ts.build(a, a.nonce, size)
		ts.prio-- // the trial does not consume a priority
		d := want - tx.Size()
		if d == 0 {
			ts.prio++
			simkit.Probe("tx_filling_payload_exactly_to_the_limit")
			return tx
		}
		size += d
		if size < 0 {
			return nil
		}
	}
	return nil
}

// ---- the selection rule (C15) ------------------------------------------------------------------------------------------

// CheckSelection compares the transactions of a block a node generated with the rule, given the node's processable
// transactions right before it generated: per sender a prefix of its processable run; at every position the chosen
// transaction has the highest fee priority (fee per byte) among the senders' next transactions, unless the better one
// belongs to a sender that was dropped because its transaction failed; the payload stays within the limit; and the block
// does not stop while the best remaining candidate would still fit.
func CheckSelection(pool []*blockchain.Transaction, block []*blockchain.Transaction, limit int, accountNonce map[string]uint64) (string, string) {
	// a candidate verifies iff its nonce is the account's nonce plus the number of the sender's transactions taken so far
	verifies := func(y *blockchain.Transaction, taken int) bool {
		return y.Nonce == accountNonce[string(y.SenderAddress())]+uint64(taken) && !simmod.ExecutesInvalid(y.Params)
	}
	bySender := map[string][]*blockchain.Transaction{}
	for _, tx := range pool {
		s := string(tx.SenderAddress())
		bySender[s] = append(bySender[s], tx)
	}
	var senders []string
	for s, l := range bySender {
		sort.Slice(l, func(i, j int) bool { return l[i].Nonce < l[j].Nonce })
		senders = append(senders, s)
	}
	sort.Strings(senders)
	prio := func(tx *blockchain.Transaction) uint64 { return tx.Fee / uint64(tx.Size()) }
	ptr := map[string]int{}
	dead := map[string]bool{}
	total := 0
	for i, x := range block {
		s := string(x.SenderAddress())
		l := bySender[s]
		if ptr[s] >= len(l) || !bytes.Equal(l[ptr[s]].ID, x.ID) {
			return "not-next-of-sender", fmt.Sprintf("transaction %d of the block (sender %x nonce %d) is not the next processable transaction of its sender", i, []byte(s)[:3], x.Nonce)
		}
		if simmod.ExecutesInvalid(x.Params) {
			return "invalid-transaction-included", fmt.Sprintf("transaction %d of the block (sender %x nonce %d) is one whose execution is invalid", i, []byte(s)[:3], x.Nonce)
		}
		if dead[s] {
			return "sender-not-skipped", fmt.Sprintf("transaction %d of the block is by sender %x, which had a higher-priority transaction passed over earlier (a failed sender must be skipped for the rest of the block)", i, []byte(s)[:3])
		}
		for _, o := range senders {
			if o == s || dead[o] || ptr[o] >= len(bySender[o]) {
				continue
			}
			y := bySender[o][ptr[o]]
			if prio(y) > prio(x) {
				// passed over: legitimate only if it failed verification or execution, in which case its sender is out
				if verifies(y, ptr[o]) && total+y.Size() <= limit {
					return "better-candidate-passed-over", fmt.Sprintf("transaction %d of the block (priority %d) was taken although sender %x's next transaction (nonce %d, priority %d, %d bytes) has a higher fee priority, verifies against the account nonce and fits", i, prio(x), []byte(o)[:3], y.Nonce, prio(y), y.Size())
				}
				dead[o] = true
			}
		}
		ptr[s]++
		total += x.Size()
		if total > limit {
			return "payload-over-limit", fmt.Sprintf("the payload is %d bytes after transaction %d, the limit is %d", total, i, limit)
		}
	}
	// maximality: going on in priority order, the block may end at the first candidate that does not fit; candidates that
	// do not verify drop their sender; a candidate that fits and verifies should have been taken
	for {
		var best *blockchain.Transaction
		bo := ""
		for _, o := range senders {
			if dead[o] || ptr[o] >= len(bySender[o]) {
				continue
			}
			y := bySender[o][ptr[o]]
			if best == nil || prio(y) > prio(best) {
				best, bo = y, o
			}
		}
		if best == nil || total+best.Size() > limit {
			break
		}
		if !verifies(best, ptr[bo]) {
			dead[bo] = true
			continue
		}
		return "stopped-early", fmt.Sprintf("the block ends with %d of %d payload bytes used although the best remaining candidate (sender %x nonce %d, %d bytes) verifies and fits", total, limit, []byte(best.SenderAddress())[:3], best.Nonce, best.Size())
	}
	return "", ""
}
