package chainsim

import (
	"fmt"
	"time"

	"pgregory.net/rapid"

	"github.com/LiskHQ/lisk-engine/pkg/labi"
	"github.com/LiskHQ/lisk-engine/pkg/p2p"
	"github.com/LiskHQ/lisk-engine/pkg/txpool"

	"verif/sim/simkit"
	"verif/sim/simmod"
	"verif/sim/simrt"
)

// WorldOpts selects what a property's runs emphasise.
type WorldOpts struct {
	Nodes              [2]int // min,max honest nodes
	Validators         [2]int
	Byzantine          bool // some validators (weight < 1/3) are handed to the adversary
	StandardThresholds bool // precommit/certificate thresholds fixed at floor(2W/3)+1
	ValidatorChanges   bool // the module schedules validator-set / threshold changes
	NetFaults          bool // latency spread, loss, duplication
	RPCFaults          bool
	SmallCache         bool
	Transactions       bool
}

// World is one drawn configuration: chain parameters, validators, nodes, network.
type World struct {
	T         *rapid.T
	S         *Sim
	P         *ChainParams
	Vals      []*Validator
	Weights   map[int]uint64 // genesis weights by validator index (0 = stand-by generator)
	Byz       []*Validator
	Opts      WorldOpts
	BlockTime time.Duration
	OnRestart func(n *Node)
	SyncMon   *SyncMonitor
}

type p2pPeerID = p2p.PeerID

func thresholdMin(w uint64) uint64 { return w/3 + 1 }
func thresholdStd(w uint64) uint64 { return 2*w/3 + 1 }

func labiSet(vals []*Validator, weights map[int]uint64) ([]*labi.Validator, uint64) {
	var out []*labi.Validator
	total := uint64(0)
	for _, v := range vals {
		w, ok := weights[v.Index]
		if !ok {
			continue
		}
		out = append(out, v.Labi(w))
		total += w
	}
	return out, total
}

// DrawWorld draws a configuration and builds (but does not start) the nodes.
func DrawWorld(t *rapid.T, o WorldOpts) *World {
	w := &World{T: t, Opts: o, Weights: map[int]uint64{}}
	nv := simkit.Int(t, "validators", o.Validators[0], o.Validators[1])
	for i := 0; i < nv; i++ {
		w.Vals = append(w.Vals, NewValidator(i))
	}
	total := uint64(0)
	for _, v := range w.Vals {
		wt := uint64(simkit.Int(t, "weight", 1, 5))
		if nv > 4 && simkit.Chance(t, "standby", 1, 8) {
			wt = 0
		}
		w.Weights[v.Index] = wt
		total += wt
	}
	if total == 0 {
		w.Weights[0] = 1
		total = 1
	}
	// Byzantine validators: total weight strictly below one third
	if o.Byzantine {
		budget := (total - 1) / 3 // largest weight with 3*b < total
		for _, v := range w.Vals {
			wt := w.Weights[v.Index]
			if wt > 0 && wt <= budget && simkit.Chance(t, "byz", 1, 2) {
				v.Byzantine = true
				w.Byz = append(w.Byz, v)
				budget -= wt
			}
		}
	}
	pre, cert := thresholdStd(total), thresholdStd(total)
	if !o.StandardThresholds {
		pre = uint64(simkit.Int(t, "prethreshold", int(thresholdMin(total)), int(total)))
		cert = uint64(simkit.Int(t, "certthreshold", int(thresholdMin(total)), int(total)))
	}
	blockTime := []uint32{2, 5, 10}[simkit.Int(t, "blocktime", 0, 2)]
	w.BlockTime = time.Duration(blockTime) * time.Second
	batch := nv + simkit.Int(t, "batchextra", 0, 3)
	gv, _ := labiSet(w.Vals, w.Weights)
	mod := &simmod.Config{GenesisValidators: gv, PrecommitThreshold: pre, CertificateThreshold: cert, GenesisState: map[string][]byte{}, BlockEvents: simkit.Bool(t, "blockevents"), QuietBlocks: simkit.Bool(t, "quietblocks"),
		Asset: simkit.Bool(t, "asset"), StrictNonce: true}
	// the chain could start above height 0 (the certificate rules treat the first 100 heights specially)
	// (always 0 for now: Chain.PrepareCache asks for heights below a non-zero genesis height whenever the chain is
	// shorter than the block cache, so a node with such a genesis block does not start - see DESIGN, observations)
	gh := uint32(0)
	if o.ValidatorChanges {
		nch := simkit.Int(t, "nchanges", 0, 3)
		last := gh + 2
		prevWeights := map[int]uint64{}
		for k, v := range w.Weights {
			prevWeights[k] = v
		}
		for c := 0; c < nch; c++ {
			h := last + uint32(simkit.Int(t, "changegap", 1, 25))
			last = h
			wts := map[int]uint64{}
			tot := uint64(0)
			active := 0
			kind := simkit.Int(t, "changekind", 0, 7) // most changes move little weight, as a real validator election does
			gentle := kind <= 4
			if kind == 5 {
				// same validators, all weights multiplied: votes counted with the weights of one parameter set against
				// the thresholds of the other are off by the factor
				f := uint64([]int{2, 3, 10}[simkit.Int(t, "rescale", 0, 2)])
				for _, v := range w.Vals {
					wts[v.Index] = prevWeights[v.Index] * f
					tot += wts[v.Index]
				}
			} else if gentle {
				for k, v := range prevWeights {
					wts[k] = v
				}
				nmod := simkit.Int(t, "nmod", 1, 2)
				for j := 0; j < nmod; j++ {
					vi := simkit.Int(t, "modwho", 0, len(w.Vals)-1)
					delta := simkit.Int(t, "moddelta", -1, 1)
					nw := int(wts[vi]) + delta
					if nw < 0 {
						nw = 0
					}
					wts[vi] = uint64(nw)
				}
				for _, v := range w.Vals {
					if wts[v.Index] > 0 {
						active++
						if active > batch {
							wts[v.Index] = 0
						}
					}
					tot += wts[v.Index]
				}
			} else {
				for _, v := range w.Vals {
					wt := uint64(simkit.Int(t, "cweight", 0, 5))
					if active >= batch {
						wt = 0
					}
					if wt > 0 {
						active++
					}
					wts[v.Index] = wt
					tot += wt
				}
			}
			if tot == 0 {
				wts[0], tot = 1, 1
			}
			// the adversary keeps less than one third of every parameter set
			bz := uint64(0)
			for _, v := range w.Byz {
				bz += wts[v.Index]
			}
			for _, v := range w.Byz {
				if 3*bz >= tot {
					bz -= wts[v.Index]
					tot -= wts[v.Index]
					wts[v.Index] = 0
				}
			}
			if tot == 0 {
				continue
			}
			cpre, ccert := thresholdStd(tot), thresholdStd(tot)
			if !o.StandardThresholds {
				cpre = uint64(simkit.Int(t, "cpre", int(thresholdMin(tot)), int(tot)))
				ccert = uint64(simkit.Int(t, "ccert", int(thresholdMin(tot)), int(tot)))
			}
			lv, _ := labiSet(w.Vals, wts)
			mod.Changes = append(mod.Changes, simmod.ValidatorChange{Height: h, PrecommitThreshold: cpre, CertificateThreshold: ccert, Validators: lv})
			prevWeights = wts
		}
	}
	cache := 515
	if o.SmallCache && simkit.Bool(t, "smallcache") {
		cache = simkit.Int(t, "cache", 3, 12)
	}
	keep := []int{-1, 0, 5}[simkit.Int(t, "keepevents", 0, 2)]
	w.P = &ChainParams{ChainID: []byte{0, 0, 0, 7}, GenesisHeight: gh, BlockTime: blockTime, BatchSize: batch, MaxTxSize: uint32(simkit.Int(t, "maxtxsize", 300, 15000)), MaxBlockCache: cache, KeepEvents: keep,
		Pool: txpool.TransactionPoolConfig{MaxTransactions: 64, MaxTransactionsPerAccount: 8, MinReplacementFeeDifference: 10}, Module: mod}
	if simkit.Bool(t, "smallmem") {
		w.P.DBKnobs.MemTableSize = 128 << 10
	}
	// the chain started 20 s before the simulation does, so that no (skewed) clock ever reads a time before genesis
	g, err := BuildGenesis(w.P, uint32(simrt.Epoch.Unix())-20)
	if err != nil {
		t.Fatalf("infra: genesis: %v", err)
	}
	w.P.Genesis = g
	w.S = NewSim(t, w.P, w.Vals)
	if o.NetFaults {
		w.S.Net = NetConfig{MinLatency: time.Duration(simkit.Int(t, "minlat", 1, 200)) * time.Millisecond}
		w.S.Net.MaxLatency = w.S.Net.MinLatency + time.Duration(simkit.Int(t, "latspread", 0, 3000))*time.Millisecond
		w.S.Net.DropPct = []int{0, 0, 5, 20}[simkit.Int(t, "droppct", 0, 3)]
		w.S.Net.DupPct = []int{0, 0, 10}[simkit.Int(t, "duppct", 0, 2)]
	} else {
		w.S.Net = NetConfig{MinLatency: 20 * time.Millisecond, MaxLatency: 20 * time.Millisecond}
	}
	if o.RPCFaults {
		w.S.Net.RPCFailPct = []int{0, 5, 20}[simkit.Int(t, "rpcfail", 0, 2)]
		w.S.Net.RPCCorruptPct = []int{0, 5, 20}[simkit.Int(t, "rpccorrupt", 0, 2)]
	}
	nn := simkit.Int(t, "nodes", o.Nodes[0], o.Nodes[1])
	for i := 0; i < nn; i++ {
		w.S.AddNode()
	}
	// honest validators are spread over the honest nodes
	i := 0
	for _, v := range w.Vals {
		if v.Byzantine {
			continue
		}
		n := w.S.Nodes[i%nn]
		v.Node = n.ID
		n.Keys = append(n.Keys, v)
		i++
	}
	return w
}

// StartAll starts every node and its periodic events.
func (w *World) StartAll() {
	for _, n := range w.S.Nodes {
		if n.IsAdversary {
			continue
		}
		if err := n.Start(); err != nil {
			w.T.Fatalf("infra: start %s: %v (log: %v)", n.Name, err, n.Log.Tail(5))
		}
		w.S.StartTicks(n)
	}
	if w.S.Adv != nil {
		w.S.Adv.Start()
	}
}

// Shutdown ends every node that is still up (databases closed, observers ended) so that a finished run holds no memory.
func (w *World) Shutdown() {
	for _, n := range append(append([]*Node{}, w.S.Nodes...), w.S.Detached...) {
		if n.Up {
			n.Stop(true, false)
		}
	}
}

func (w *World) Describe() string {
	s := fmt.Sprintf("validators=%d nodes=%d blocktime=%v batch=%d pre=%d cert=%d byz=%d genesis=%d", len(w.Vals), len(w.S.Nodes), w.BlockTime, w.P.BatchSize, w.P.Module.PrecommitThreshold, w.P.Module.CertificateThreshold, len(w.Byz), w.P.GenesisHeight)
	return s
}

// FaultPlan says which fault kinds a run may use (swarm style: each run enables a drawn subset).
type FaultPlan struct {
	Partitions bool
	Crashes    bool
	Skew       bool
	LongOutage bool // a crashed node may stay down for up to 60 block slots (it then needs a block sync, not a fast switch)
	Jumps      bool // a node's wall clock is stepped forwards or backwards by up to three block slots (timers keep running)
	Stalls     bool // a node's process is suspended for up to eight block slots and then resumes where it was
}

// ScheduleFaults draws fault events over [0, horizon]: partitions with heal, crash + restart of honest nodes,
// constant clock skew per node. Everything is drawn now; the events fire on the simulated clock.
func (w *World) ScheduleFaults(plan FaultPlan, horizon time.Duration) {
	t := w.T
	s := w.S
	if plan.Skew {
		for _, n := range s.Nodes {
			if simkit.Chance(t, "skewed", 1, 3) {
				n.Skew = time.Duration(simkit.Int(t, "skewms", -1500, 1500)) * time.Millisecond
				s.Stats["clock_skew"]++
			}
		}
	}
	hz := int(horizon / time.Millisecond)
	if plan.Jumps {
		nj := simkit.Int(t, "njumps", 0, 3)
		for i := 0; i < nj; i++ {
			n := s.Nodes[simkit.Int(t, "jumpnode", 0, len(s.Nodes)-1)]
			at := time.Duration(simkit.Int(t, "jumpat", 0, hz)) * time.Millisecond
			d := time.Duration(simkit.Int(t, "jumpms", 1, 3*int(w.BlockTime/time.Millisecond))) * time.Millisecond
			if simkit.Bool(t, "jumpback") {
				d = -d
			}
			if n.IsAdversary {
				continue
			}
			s.At(at, "clock jump "+n.Name, func() {
				if s.Now()+n.Skew+d < -15*time.Second {
					return // no clock of the run reads a time before the genesis block's (20 s before the start)
				}
				n.Skew += d
				if d < 0 {
					s.Stats["clock_jump_backwards"]++
				} else {
					s.Stats["clock_jump_forwards"]++
				}
			})
		}
	}
	if plan.Stalls {
		ns := simkit.Int(t, "nstalls", 0, 2)
		for i := 0; i < ns; i++ {
			n := s.Nodes[simkit.Int(t, "stallnode", 0, len(s.Nodes)-1)]
			at := time.Duration(simkit.Int(t, "stallat", 0, hz)) * time.Millisecond
			dur := time.Duration(simkit.Int(t, "stallms", 500, 8*int(w.BlockTime/time.Millisecond))) * time.Millisecond
			if n.IsAdversary {
				continue
			}
			s.At(at, "stall "+n.Name, func() {
				if n.Up && !s.Stalled(n) {
					n.StalledUntil = s.Now() + dur
					s.Stats["node_stalled"]++
				}
			})
		}
	}
	if plan.Partitions && simkit.Chance(t, "usemute", 1, 3) {
		// one-way trouble: for a while nothing a node publishes gets out, while it keeps hearing the others
		n := s.Nodes[simkit.Int(t, "mutenode", 0, len(s.Nodes)-1)]
		at := time.Duration(simkit.Int(t, "muteat", 0, hz)) * time.Millisecond
		dur := time.Duration(simkit.Int(t, "mutedur", 1, 12)) * w.BlockTime
		if !n.IsAdversary {
			s.At(at, "mute "+n.Name, func() {
				n.MutedUntil = s.Now() + dur
				s.Stats["node_muted"]++
			})
		}
	}
	if plan.Partitions {
		np := simkit.Int(t, "npartitions", 0, 3)
		for i := 0; i < np; i++ {
			at := time.Duration(simkit.Int(t, "partat", 0, hz)) * time.Millisecond
			dur := time.Duration(simkit.Int(t, "partdur", 1, 12)) * w.BlockTime
			groups := map[string]int{}
			for _, p := range s.allPeers() {
				groups[string(p)] = simkit.Int(t, "group", 0, 1)
			}
			s.At(at, "partition", func() {
				g := map[p2pPeerID]int{}
				for k, v := range groups {
					g[p2pPeerID(k)] = v
				}
				s.Partition(g)
				s.Stats["partition"]++
			})
			s.At(at+dur, "heal", func() { s.Heal(); s.Stats["heal"]++ })
		}
	}
	s.OnNodeDied = func(n *Node) {
		if n.onDied != nil {
			f := n.onDied
			n.onDied = nil
			f()
		}
	}
	if plan.Crashes {
		nc := simkit.Int(t, "ncrashes", 0, 3)
		for i := 0; i < nc; i++ {
			n := s.Nodes[simkit.Int(t, "crashnode", 0, len(s.Nodes)-1)]
			if n.IsAdversary {
				continue
			}
			at := time.Duration(simkit.Int(t, "crashat", 0, hz)) * time.Millisecond
			down := time.Duration(simkit.Int(t, "downfor", 1, 20)) * w.BlockTime
			if plan.LongOutage && simkit.Chance(t, "longoutage", 1, 3) {
				down = time.Duration(simkit.Int(t, "downforlong", 20, 60)) * w.BlockTime
				simkit.Fault("long_outage")
			}
			mode := simkit.Int(t, "crashmode", 0, 4) // 0 graceful, 1 kill, 2 power loss, 3/4 kill / power loss in the middle of a step
			crashK := simkit.Int(t, "crashstepop", 1, 10)
			crashTear := []int{-1, 0, 7}[simkit.Int(t, "crashsteptear", 0, 2)]
			restart := func() {
				s.At(down, "restart "+n.Name, func() {
					if n.Up || n.Hung {
						return
					}
					if err := n.Start(); err != nil {
						if s.NodePanic != nil {
							s.NodePanic(n, "restart", fmt.Errorf("restart failed: %w (log %v)", err, n.Log.Tail(3)))
						}
						return
					}
					s.Stats["restart"]++
					if w.OnRestart != nil {
						w.OnRestart(n)
					}
					s.StartTicks(n)
				})
			}
			if mode >= 3 {
				s.At(at, "arm crash "+n.Name, func() {
					if n.Up && !n.CrashArmed {
						s.ArmCrash(n, crashK, crashTear, mode == 4)
						n.onDied = restart
					}
				})
				continue
			}
			s.At(at, "crash "+n.Name, func() {
				if !n.Up {
					return
				}
				n.Stop(mode == 0, mode == 2)
				s.Stats["crash"]++
				s.At(down, "restart "+n.Name, func() {
					if n.Up || n.Hung {
						return
					}
					if err := n.Start(); err != nil {
						if s.NodePanic != nil {
							s.NodePanic(n, "restart", fmt.Errorf("restart failed: %w (log %v)", err, n.Log.Tail(3)))
						}
						return
					}
					s.Stats["restart"]++
					if w.OnRestart != nil {
						w.OnRestart(n)
					}
					s.StartTicks(n)
				})
			})
		}
	}
}

// KillInsideNextSteps arms node n's disk so that the node dies at the k-th file-system call of one of its next steps,
// and restarts it `down` later.
func (w *World) KillInsideNextSteps(n *Node, k, tear int, power bool, down time.Duration) {
	s := w.S
	if !n.Up || n.CrashArmed || n.armPending {
		return
	}
	s.ArmCrash(n, k, tear, power)
	n.onDied = func() {
		s.At(down, "restart "+n.Name, func() {
			if n.Up || n.Hung {
				return
			}
			if err := n.Start(); err != nil {
				if s.NodePanic != nil {
					s.NodePanic(n, "restart", fmt.Errorf("restart failed: %w (log %v)", err, n.Log.Tail(3)))
				}
				return
			}
			s.Stats["restart"]++
			if w.OnRestart != nil {
				w.OnRestart(n)
			}
			s.StartTicks(n)
		})
	}
}

// QuorumsIntersectInHonest reports whether, for every two parameter sets of the run (genesis and scheduled changes),
// every precommit quorum of the one and every prevote-or-precommit quorum of the other share at least one honest
// validator. This is the quorum-intersection premise of the Lisk-BFT safety argument; a schedule that hands most of
// the weight to other validators in one step violates it by construction (two disjoint honest groups can each
// finalize their own branch without anybody misbehaving), so C01 issues no verdict for such runs.
func (w *World) QuorumsIntersectInHonest() bool {
	type pset struct {
		weights map[int]uint64
		pre     uint64
		prevote uint64
	}
	var sets []pset
	mk := func(vals []*labi.Validator, pre uint64) pset {
		p := pset{weights: map[int]uint64{}, pre: pre}
		tot := uint64(0)
		for _, lv := range vals {
			for _, v := range w.Vals {
				if string(v.Address) == string(lv.Address) && lv.BFTWeight > 0 {
					p.weights[v.Index] = lv.BFTWeight
					tot += lv.BFTWeight
				}
			}
		}
		p.prevote = 2*tot/3 + 1
		return p
	}
	sets = append(sets, mk(w.P.Module.GenesisValidators, w.P.Module.PrecommitThreshold))
	for _, ch := range w.P.Module.Changes {
		sets = append(sets, mk(ch.Validators, ch.PrecommitThreshold))
	}
	n := len(w.Vals)
	byz := map[int]bool{}
	for _, v := range w.Byz {
		byz[v.Index] = true
	}
	weightOf := func(p pset, mask int) uint64 {
		t := uint64(0)
		for i := 0; i < n; i++ {
			if mask&(1<<uint(i)) != 0 {
				t += p.weights[i]
			}
		}
		return t
	}
	for a := range sets {
		for b := range sets {
			ta := sets[a].pre
			tb := sets[b].pre
			if sets[b].prevote < tb {
				tb = sets[b].prevote
			}
			for ma := 0; ma < 1<<uint(n); ma++ {
				if weightOf(sets[a], ma) < ta {
					continue
				}
				for mb := 0; mb < 1<<uint(n); mb++ {
					if weightOf(sets[b], mb) < tb {
						continue
					}
					honest := false
					for i := 0; i < n; i++ {
						if ma&mb&(1<<uint(i)) != 0 && !byz[i] {
							honest = true
							break
						}
					}
					if !honest {
						return false
					}
				}
			}
		}
	}
	return true
}
