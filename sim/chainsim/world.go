package chainsim

import (
	"fmt"
	"time"

	"pgregory.net/rapid"

	"github.com/LiskHQ/lisk-engine/pkg/labi"
	"github.com/LiskHQ/lisk-engine/pkg/txpool"

	"verif/sim/simkit"
	"verif/sim/simmod"
	"verif/sim/simrt"
)

// WorldOpts selects what a property's runs emphasise.
type WorldOpts struct {
	Nodes              [2]int // min,max honest nodes
	Validators         [2]int
	Byzantine          bool // some validators (weight < 1/3) are handed to the adversary
	StandardThresholds bool // precommit/certificate thresholds fixed at floor(2W/3)+1
	ValidatorChanges   bool // the module schedules validator-set / threshold changes
	NetFaults          bool // latency spread, loss, duplication
	RPCFaults          bool
	SmallCache         bool
	Transactions       bool
}

// World is one drawn configuration: chain parameters, validators, nodes, network.
type World struct {
	T         *rapid.T
	S         *Sim
	P         *ChainParams
	Vals      []*Validator
	Weights   map[int]uint64 // genesis weights by validator index (0 = stand-by generator)
	Byz       []*Validator
	Opts      WorldOpts
	BlockTime time.Duration
}

func thresholdMin(w uint64) uint64 { return w/3 + 1 }
func thresholdStd(w uint64) uint64 { return 2*w/3 + 1 }

func labiSet(vals []*Validator, weights map[int]uint64) ([]*labi.Validator, uint64) {
	var out []*labi.Validator
	total := uint64(0)
	for _, v := range vals {
		w, ok := weights[v.Index]
		if !ok {
			continue
		}
		out = append(out, v.Labi(w))
		total += w
	}
	return out, total
}

// DrawWorld draws a configuration and builds (but does not start) the nodes.
func DrawWorld(t *rapid.T, o WorldOpts) *World {
	w := &World{T: t, Opts: o, Weights: map[int]uint64{}}
	nv := simkit.Int(t, "validators", o.Validators[0], o.Validators[1])
	for i := 0; i < nv; i++ {
		w.Vals = append(w.Vals, NewValidator(i))
	}
	total := uint64(0)
	for _, v := range w.Vals {
		wt := uint64(simkit.Int(t, "weight", 1, 5))
		if nv > 4 && simkit.Chance(t, "standby", 1, 8) {
			wt = 0
		}
		w.Weights[v.Index] = wt
		total += wt
	}
	if total == 0 {
		w.Weights[0] = 1
		total = 1
	}
	// Byzantine validators: total weight strictly below one third
	if o.Byzantine {
		budget := (total - 1) / 3 // largest weight with 3*b < total
		for _, v := range w.Vals {
			wt := w.Weights[v.Index]
			if wt > 0 && wt <= budget && simkit.Chance(t, "byz", 1, 2) {
				v.Byzantine = true
				w.Byz = append(w.Byz, v)
				budget -= wt
			}
		}
	}
	pre, cert := thresholdStd(total), thresholdStd(total)
	if !o.StandardThresholds {
		pre = uint64(simkit.Int(t, "prethreshold", int(thresholdMin(total)), int(total)))
		cert = uint64(simkit.Int(t, "certthreshold", int(thresholdMin(total)), int(total)))
	}
	blockTime := []uint32{2, 5, 10}[simkit.Int(t, "blocktime", 0, 2)]
	w.BlockTime = time.Duration(blockTime) * time.Second
	batch := nv + simkit.Int(t, "batchextra", 0, 3)
	gv, _ := labiSet(w.Vals, w.Weights)
	mod := &simmod.Config{GenesisValidators: gv, PrecommitThreshold: pre, CertificateThreshold: cert, GenesisState: map[string][]byte{}, BlockEvents: simkit.Bool(t, "blockevents"),
		Asset: simkit.Bool(t, "asset"), StrictNonce: true}
	cache := 515
	if o.SmallCache && simkit.Bool(t, "smallcache") {
		cache = simkit.Int(t, "cache", 3, 12)
	}
	keep := []int{-1, 0, 5}[simkit.Int(t, "keepevents", 0, 2)]
	w.P = &ChainParams{ChainID: []byte{0, 0, 0, 7}, BlockTime: blockTime, BatchSize: batch, MaxTxSize: uint32(simkit.Int(t, "maxtxsize", 300, 15000)), MaxBlockCache: cache, KeepEvents: keep,
		Pool: txpool.TransactionPoolConfig{MaxTransactions: 64, MaxTransactionsPerAccount: 8, MinReplacementFeeDifference: 10}, Module: mod}
	if simkit.Bool(t, "smallmem") {
		w.P.DBKnobs.MemTableSize = 256 << 10
	}
	g, err := BuildGenesis(w.P, uint32(simrt.Epoch.Unix()))
	if err != nil {
		t.Fatalf("infra: genesis: %v", err)
	}
	w.P.Genesis = g
	w.S = NewSim(t, w.P, w.Vals)
	if o.NetFaults {
		w.S.Net = NetConfig{MinLatency: time.Duration(simkit.Int(t, "minlat", 1, 200)) * time.Millisecond}
		w.S.Net.MaxLatency = w.S.Net.MinLatency + time.Duration(simkit.Int(t, "latspread", 0, 3000))*time.Millisecond
		w.S.Net.DropPct = []int{0, 0, 5, 20}[simkit.Int(t, "droppct", 0, 3)]
		w.S.Net.DupPct = []int{0, 0, 10}[simkit.Int(t, "duppct", 0, 2)]
	} else {
		w.S.Net = NetConfig{MinLatency: 20 * time.Millisecond, MaxLatency: 20 * time.Millisecond}
	}
	if o.RPCFaults {
		w.S.Net.RPCFailPct = []int{0, 5, 20}[simkit.Int(t, "rpcfail", 0, 2)]
		w.S.Net.RPCCorruptPct = []int{0, 5, 20}[simkit.Int(t, "rpccorrupt", 0, 2)]
	}
	nn := simkit.Int(t, "nodes", o.Nodes[0], o.Nodes[1])
	for i := 0; i < nn; i++ {
		w.S.AddNode()
	}
	// honest validators are spread over the honest nodes
	i := 0
	for _, v := range w.Vals {
		if v.Byzantine {
			continue
		}
		n := w.S.Nodes[i%nn]
		v.Node = n.ID
		n.Keys = append(n.Keys, v)
		i++
	}
	return w
}

// StartAll starts every node and its periodic events.
func (w *World) StartAll() {
	for _, n := range w.S.Nodes {
		if err := n.Start(); err != nil {
			w.T.Fatalf("infra: start %s: %v (log: %v)", n.Name, err, n.Log.Tail(5))
		}
		w.S.StartTicks(n)
	}
}

func (w *World) Describe() string {
	s := fmt.Sprintf("validators=%d nodes=%d blocktime=%v batch=%d pre=%d cert=%d byz=%d", len(w.Vals), len(w.S.Nodes), w.BlockTime, w.P.BatchSize, w.P.Module.PrecommitThreshold, w.P.Module.CertificateThreshold, len(w.Byz))
	return s
}
