package chainsim

import (
	"bytes"
	"fmt"
	"time"

	"github.com/LiskHQ/lisk-engine/pkg/blockchain"
	"github.com/LiskHQ/lisk-engine/pkg/codec"
	"github.com/LiskHQ/lisk-engine/pkg/consensus"
	csync "github.com/LiskHQ/lisk-engine/pkg/consensus/sync"
	"github.com/LiskHQ/lisk-engine/pkg/p2p"
	"github.com/LiskHQ/lisk-engine/pkg/trie/rmt"

	"verif/sim/simkit"
)

// Adversary drives the Byzantine validators. It owns their keys and a shadow node: a real node that follows the
// network like any other, whose generator is used to build valid blocks on a tip of the adversary's choice; the
// adversary then rewrites header fields, re-signs, and decides who receives what and when.
type Adversary struct {
	W        *World
	S        *Sim
	Shadow   *Node   // the head in use (set by act for each head in turn)
	Heads    []*Node // one or two shadow nodes; with two, a partition can put one on each side (split-brain equivocation)
	headSlot map[*Node]int
	Keys     map[string]*Validator // by address
	Made     []*blockchain.Block   // every block the adversary signed
	held     []heldBlock           // withheld blocks (private fork) to be released later
	Stats    map[string]int
	Enabled  bool
	lastSlot int
	// PayloadAttacks: blocks whose payload exceeds the size limit and blocks carrying a statically invalid transaction
	PayloadAttacks bool
	// SyncTwins: blocks announced with one payload and served to synchronizing nodes with another (same header)
	SyncTwins bool
	Swap      map[string]*blockchain.Block // id of the shadow's block -> what its sync responder serves instead
}

// SwapServed rewrites a getBlocksFromId response of a shadow node: blocks with a registered twin are replaced.
func (a *Adversary) SwapServed(respData []byte) []byte {
	if len(a.Swap) == 0 {
		return nil
	}
	resp := &csync.GetBlocksFromIDResponse{}
	if err := resp.Decode(respData); err != nil {
		return nil
	}
	hit := false
	for i, b := range resp.Blocks {
		b.Init() // decoded as a field of the response: the ids are not computed yet
		if tw := a.Swap[string(b.Header.ID)]; tw != nil {
			resp.Blocks[i] = cloneBlock(tw)
			hit = true
		}
	}
	if !hit {
		return nil
	}
	return resp.Encode()
}

type heldBlock struct {
	from    *Node
	b       *blockchain.Block
	release time.Duration
}

// AddAdversary creates the shadow node (a member of the simulated network) holding the Byzantine keys.
func (w *World) AddAdversary() *Adversary {
	a := &Adversary{W: w, S: w.S, Keys: map[string]*Validator{}, Stats: map[string]int{}, Enabled: true, lastSlot: -1, headSlot: map[*Node]int{}}
	nh := simkit.Int(w.T, "advheads", 1, 2)
	for h := 0; h < nh; h++ {
		n := w.S.AddNode()
		n.Name = []string{"adv", "adv2"}[h]
		n.IsAdversary = true
		for _, v := range w.Byz {
			a.Keys[string(v.Address)] = v
			n.Keys = append(n.Keys, v)
		}
		a.Heads = append(a.Heads, n)
		a.headSlot[n] = -1
	}
	a.Shadow = a.Heads[0]
	w.S.Adv = a
	return a
}

// IsHead reports whether the peer is one of the adversary's shadow nodes.
func (a *Adversary) IsHead(p p2p.PeerID) bool {
	for _, n := range a.Heads {
		if n.Peer == p {
			return true
		}
	}
	return false
}

// Start starts the shadow node and the adversary's own tick.
func (a *Adversary) Start() {
	for _, n := range a.Heads {
		if err := n.Start(); err != nil {
			a.W.T.Fatalf("infra: start shadow: %v", err)
		}
	}
	var tick func()
	tick = func() {
		a.release()
		for i, n := range a.Heads {
			if !n.Up || !a.Enabled {
				continue
			}
			// the second head only acts when it follows another branch than the first (otherwise it would just
			// double every block)
			if i > 0 && bytes.Equal(n.Tip().ID, a.Heads[0].Tip().ID) {
				continue
			}
			a.Shadow = n
			a.lastSlot = a.headSlot[n]
			a.act()
			a.headSlot[n] = a.lastSlot
			if i > 0 {
				simkit.Probe("byz_second_head_acted_on_other_branch")
			}
		}
		a.Shadow = a.Heads[0]
		a.S.At(time.Second, "adv tick", tick)
	}
	a.S.At(333*time.Millisecond, "adv tick", tick)
}

func (a *Adversary) slotNow() int {
	return a.Shadow.Exec.GetSlotNumber(uint32(simrtNowUnix()))
}

// resign rewrites nothing itself; callers change fields and then call it with the generator's key.
func (a *Adversary) resign(b *blockchain.Block) bool {
	v := a.Keys[string(b.Header.GeneratorAddress)]
	if v == nil {
		return false
	}
	b.Header.Sign(a.W.P.ChainID, v.GenPriv)
	return true
}

// forgeOnTip lets the shadow's real generator build a block on the shadow's current tip (only works in a slot that
// belongs to a Byzantine validator). The block is applied on the shadow; its publication is intercepted.
func (a *Adversary) forgeOnTip() *blockchain.Block {
	n := a.Shadow
	var forged *blockchain.Block
	a.S.Step(n, "adv forge", func() {
		// (the shadow's generator keeps its own record of what it signed, so that by default the adversary's headers
		// carry a truthful maxHeightGenerated and are accepted; deviations are made deliberately afterwards. Each head
		// has its own record: two heads on two branches equivocate.)
		before := n.Exec.VerifQueueLen()
		n.Pool.VerifReorg() // the shadow has no tick of its own: promote its pooled transactions before generating
		n.Gen.VerifForge()
		if n.Exec.VerifQueueLen() == before {
			return
		}
		tipBefore := n.Tip().ID
		_, _ = n.Exec.VerifStep()
		if !bytes.Equal(n.Tip().ID, tipBefore) {
			forged = n.Chain.LastBlock()
		}
	})
	return forged
}

func cloneBlock(b *blockchain.Block) *blockchain.Block {
	c, err := blockchain.NewBlock(b.Encode())
	if err != nil {
		panic(err)
	}
	return c
}

// release sends withheld blocks that are due.
func (a *Adversary) release() {
	now := a.S.Now()
	kept := a.held[:0]
	for _, h := range a.held {
		if h.release <= now {
			a.Shadow = h.from
			a.sendToAll(h.b, 0)
			a.Stats["released_withheld"]++
		} else {
			kept = append(kept, h)
		}
	}
	a.held = kept
	a.Shadow = a.Heads[0]
}

// act is called every simulated second for each head.
func (a *Adversary) act() {
	t := a.W.T
	now := a.S.Now()
	slot := a.slotNow()
	if slot == a.lastSlot {
		return
	}
	// payload rules (C03): now and then the adversary's generator runs with four times the chain's payload limit - when
	// its pool holds enough, the block it builds is valid in everything but the size of its payload
	oversize := false
	if a.PayloadAttacks && simkit.Chance(t, "byzoversize", 1, 4) {
		total := 0
		for _, tx := range a.Shadow.Pool.GetProcessable() {
			total += tx.Size()
		}
		oversize = total > int(a.W.P.MaxTxSize)
		if oversize {
			simkit.Probe("byz_pool_exceeds_payload_limit")
		}
	}
	if oversize {
		a.Shadow.GenCfg.Genesis.MaxTransactionsSize = 4 * a.W.P.MaxTxSize
	}
	b := a.forgeOnTip()
	a.Shadow.GenCfg.Genesis.MaxTransactionsSize = a.W.P.MaxTxSize
	if b == nil {
		return
	}
	a.lastSlot = slot
	a.Stats["byz_blocks"]++
	honest := a.honestNodes()
	if size := payloadSize(b); size > int(a.W.P.MaxTxSize) {
		a.record(b)
		a.sendToAll(b, 0)
		a.Stats["oversized_payload"]++
		simkit.Fault("byz_oversized_payload")
		return
	}
	if len(b.Transactions) > 0 {
		simkit.Probe("byz_block_carries_transactions")
	}
	if a.PayloadAttacks && len(b.Transactions) > 0 && simkit.Chance(t, "byzstatic", 1, 3) {
		if b2 := a.staticallyInvalidTwin(b); b2 != nil {
			// the honest nodes get the twin only; the shadow keeps the valid block
			a.record(b)
			a.record(b2)
			a.sendToAll(b2, 0)
			a.Stats["statically_invalid_transaction"]++
			simkit.Fault("byz_statically_invalid_transaction")
			return
		}
	}
	if a.SyncTwins && len(b.Transactions) == 0 && simkit.Chance(t, "byzswap", 1, 5) {
		// payload swap: the header commits to a payload of one (statically valid) transaction, while its state and event
		// roots are those of the empty payload. Announced with the transaction the block passes the gossip checks and fails
		// at execution; a node that has to fetch it (fast chain switch) is served the same header with the empty payload,
		// which executes to the signed roots but is not what the transaction root commits to.
		fake := &blockchain.Transaction{Module: "sim", Command: "prog", Nonce: 0, Fee: 1, SenderPublicKey: simkit.Bytes(t, "swapkey", 32, 32), Params: []byte{}, Signatures: []codec.Hex{bytes.Repeat([]byte{9}, 64)}}
		fake.Init()
		b2 := cloneBlock(b)
		b2.Header.TransactionRoot = rmt.CalculateRoot([][]byte{fake.ID})
		// only nodes that do not stand on the parent have to fetch the block; the others get the honest block
		var lagging, atTip []*Node
		for _, n := range honest {
			if n.Up && !bytes.Equal(n.Tip().ID, b.Header.PreviousBlockID) {
				lagging = append(lagging, n)
			} else {
				atTip = append(atTip, n)
			}
		}
		if len(lagging) > 0 && fake.Validate() == nil && a.resign(b2) {
			b2.Init()
			announced := cloneBlock(b2)
			announced.Transactions = []*blockchain.Transaction{fake}
			if a.Swap == nil {
				a.Swap = map[string]*blockchain.Block{}
			}
			a.Swap[string(b.Header.ID)] = b2
			a.record(b)
			a.record(b2)
			for _, n := range lagging {
				a.send(announced, n, 0)
			}
			for _, n := range atTip {
				a.send(b, n, 0)
			}
			a.Stats["payload_swap"]++
			simkit.Fault("byz_payload_swap_announced")
			return
		}
	}
	switch simkit.Int(t, "byzstrategy", 0, 5) {
	case 0: // behave
		a.record(b)
		a.sendToAll(b, 0)
	case 1: // double forging: two different blocks for this slot, one for each half of the network
		b2 := cloneBlock(b)
		if b2.Header.Timestamp+1 < a.Shadow.Exec.GetSlotTime(slot+1) && simkit.Bool(t, "dfts") {
			b2.Header.Timestamp++
		} else {
			b2.Header.MaxHeightGenerated = uint32(simkit.Int(t, "dfmhg", 0, int(b.Header.Height)))
		}
		a.resign(b2)
		a.record(b)
		a.record(b2)
		for i, n := range honest {
			if i%2 == 0 {
				a.send(b, n, 0)
			} else {
				a.send(b2, n, 0)
			}
		}
		a.Stats["double_forging"]++
		simkit.Fault("byz_double_forging")
	case 2: // lie about the largest height generated so far: claim prevotes for blocks it never saw when it forged elsewhere
		b2 := cloneBlock(b)
		b2.Header.MaxHeightGenerated = uint32(simkit.Int(t, "liemhg", 0, int(b.Header.Height)-1))
		a.resign(b2)
		a.record(b2)
		a.sendToAll(b2, 0)
		a.Stats["lie_mhg"]++
		simkit.Fault("byz_wrong_maxheightgenerated")
	case 3: // withhold: release later
		a.record(b)
		a.held = append(a.held, heldBlock{a.Shadow, b, now + time.Duration(simkit.Int(t, "withhold", 1, 6))*a.W.BlockTime})
		a.Stats["withheld"]++
		simkit.Fault("byz_withhold")
	case 4: // send to a drawn subset only
		a.record(b)
		for _, n := range honest {
			if simkit.Bool(t, "subset") {
				a.send(b, n, 0)
			}
		}
		simkit.Fault("byz_partial_send")
	default: // late: deliver after the slot has passed
		a.record(b)
		a.sendToAll(b, time.Duration(simkit.Int(t, "late", 1, 3))*a.W.BlockTime)
		simkit.Fault("byz_late_send")
	}
}

func payloadSize(b *blockchain.Block) int {
	size := 0
	for _, tx := range b.Transactions {
		size += tx.Size()
	}
	return size
}

// staticallyInvalidTwin returns a copy of the block the shadow just generated and applied in which one transaction has
// lost its signatures (or carries one of 63 bytes): the application of the simulation does not look at signatures, so the
// twin executes exactly like the original; transaction root and event root (events carry the transaction id as a topic)
// are recomputed and the header is signed again. Everything about the twin is valid except that one of its
// transactions is not a statically valid transaction.
func (a *Adversary) staticallyInvalidTwin(b *blockchain.Block) *blockchain.Block {
	t := a.W.T
	b2 := cloneBlock(b)
	tx := b2.Transactions[simkit.Int(t, "statictx", 0, len(b2.Transactions)-1)]
	oldID := append([]byte(nil), tx.ID...)
	if simkit.Bool(t, "staticnosig") {
		tx.Signatures = []codec.Hex{}
	} else {
		tx.Signatures = []codec.Hex{bytes.Repeat([]byte{7}, 63)}
	}
	tx.Init()
	if tx.Validate() == nil || bytes.Equal(oldID, tx.ID) {
		return nil
	}
	ids := make([][]byte, len(b2.Transactions))
	for i, x := range b2.Transactions {
		ids[i] = x.ID
	}
	b2.Header.TransactionRoot = rmt.CalculateRoot(ids)
	events, err := a.Shadow.Chain.DataAccess().GetEvents(b.Header.Height)
	if err != nil {
		return nil
	}
	for _, e := range events {
		for i, topic := range e.Topics {
			if bytes.Equal(topic, oldID) {
				e.Topics[i] = append([]byte(nil), tx.ID...)
			}
		}
	}
	root, err := blockchain.CalculateEventRoot(events)
	if err != nil {
		return nil
	}
	b2.Header.EventRoot = root
	if !a.resign(b2) {
		return nil
	}
	b2.Init()
	return b2
}

func (a *Adversary) record(b *blockchain.Block) {
	a.Made = append(a.Made, b)
	if a.S.OnAdversaryBlock != nil {
		a.S.OnAdversaryBlock(b)
	}
}

func (a *Adversary) honestNodes() []*Node {
	var out []*Node
	for _, n := range a.S.Nodes {
		if !n.IsAdversary {
			out = append(out, n)
		}
	}
	return out
}

func (a *Adversary) send(b *blockchain.Block, to *Node, after time.Duration) {
	a.S.InjectGossip(a.Shadow.Peer, to, consensus.P2PEventPostBlock, b.Encode(), after+a.S.latency())
}

func (a *Adversary) sendToAll(b *blockchain.Block, after time.Duration) {
	for _, n := range a.honestNodes() {
		a.send(b, n, after)
	}
}

// Peer is the shadow's network identity.
func (a *Adversary) Peer() p2p.PeerID { return a.Shadow.Peer }

func (a *Adversary) String() string {
	return fmt.Sprintf("adversary(%d keys) %v", len(a.Keys), a.Stats)
}
