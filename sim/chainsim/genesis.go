package chainsim

import (
	"bytes"
	"context"
	"fmt"

	"github.com/LiskHQ/lisk-engine/pkg/blockchain"
	"github.com/LiskHQ/lisk-engine/pkg/consensus/validator"
	"github.com/LiskHQ/lisk-engine/pkg/db"
	"github.com/LiskHQ/lisk-engine/pkg/framework"
	fconfig "github.com/LiskHQ/lisk-engine/pkg/framework/config"
	"github.com/LiskHQ/lisk-engine/pkg/labi"
	"github.com/LiskHQ/lisk-engine/pkg/statemachine"

	"verif/sim/simmod"
)

// BuildGenesis executes the genesis state on a scratch application to obtain state root, event root and
// validators hash (what Application.GenerateGenesisBlock does).
func BuildGenesis(p *ChainParams, timestamp uint32) (*blockchain.Block, error) {
	g := blockchain.NewGenesisBlock(p.GenesisHeight, timestamp, bytes.Repeat([]byte{0}, 32), blockchain.BlockAssets{})
	g.Init()
	stateDB, err := db.NewInMemoryDB()
	if err != nil {
		return nil, err
	}
	modDB, err := db.NewInMemoryDB()
	if err != nil {
		return nil, err
	}
	logger := newRingLogger("genesis")
	sm := statemachine.NewExecuter()
	sm.Init(logger)
	mod := simmod.New(p.Module)
	if err := sm.AddModule(mod); err != nil {
		return nil, err
	}
	h := framework.NewABIHandler(context.Background(), &fconfig.ApplicationConfig{}, logger, sm, g, stateDB, modDB, []framework.Module{mod})
	res, err := h.InitStateMachine(&labi.InitStateMachineRequest{Header: g.Header})
	if err != nil {
		return nil, err
	}
	gres, err := h.InitGenesisState(&labi.InitGenesisStateRequest{ContextID: res.ContextID})
	if err != nil {
		return nil, err
	}
	cres, err := h.Commit(&labi.CommitRequest{ContextID: res.ContextID, StateRoot: nil, DryRun: true})
	if err != nil {
		return nil, err
	}
	var hv []validator.HashValidator
	for _, v := range gres.NextValidators {
		if v.BFTWeight > 0 {
			hv = append(hv, validator.NewHashValidator(v.BLSKey, v.BFTWeight))
		}
	}
	vh, err := validator.ComputeValidatorsHash(hv, gres.CertificateThreshold)
	if err != nil {
		return nil, err
	}
	evs := blockchain.Events(gres.Events)
	evs.UpdateIndex()
	er, err := blockchain.CalculateEventRoot(gres.Events)
	if err != nil {
		return nil, err
	}
	g.Header.StateRoot = cres.StateRoot
	g.Header.EventRoot = er
	g.Header.ValidatorsHash = vh
	g.Init()
	if len(g.Header.ID) != 32 {
		return nil, fmt.Errorf("genesis id")
	}
	_ = stateDB.Close()
	_ = modDB.Close()
	return g, nil
}
