package chainsim

import (
	"fmt"
	"sync"

	"github.com/LiskHQ/lisk-engine/pkg/log"
)

// ringLogger keeps the last error/warning lines of a node for diagnostics; it prints nothing.
type ringLogger struct {
	mu    *sync.Mutex
	lines *[]string
	pfx   string
	// OnInfo, if set, sees every info-level message (used to observe which branch the consensus loop took)
	OnInfo func(msg string)
}

func newRingLogger(prefix string) *ringLogger {
	return &ringLogger{mu: &sync.Mutex{}, lines: &[]string{}, pfx: prefix}
}

func (l *ringLogger) add(level, msg string, others []interface{}) {
	l.mu.Lock()
	defer l.mu.Unlock()
	s := level + " " + l.pfx + " " + msg
	if len(others) > 0 {
		s += " " + fmt.Sprint(others...)
	}
	*l.lines = append(*l.lines, s)
	if len(*l.lines) > 200 {
		*l.lines = (*l.lines)[100:]
	}
}

func (l *ringLogger) Debug(msg string, others ...interface{}) {}
func (l *ringLogger) Info(msg string, others ...interface{}) {
	if l.OnInfo != nil {
		l.OnInfo(msg)
	}
	l.add("I", msg, others)
}
func (l *ringLogger) Debugf(msg string, others ...interface{}) {}
func (l *ringLogger) Infof(msg string, others ...interface{}) {
	if l.OnInfo != nil {
		l.OnInfo(msg)
	}
	l.add("I", fmt.Sprintf(msg, others...), nil)
}
func (l *ringLogger) Error(msg string, others ...interface{}) { l.add("E", msg, others) }
func (l *ringLogger) Errorf(msg string, others ...interface{}) {
	l.add("E", fmt.Sprintf(msg, others...), nil)
}
func (l *ringLogger) Warning(msg string, others ...interface{}) { l.add("W", msg, others) }
func (l *ringLogger) Warningf(msg string, others ...interface{}) {
	l.add("W", fmt.Sprintf(msg, others...), nil)
}
func (l *ringLogger) With(kv ...interface{}) log.Logger { return l }

func (l *ringLogger) Tail(n int) []string {
	l.mu.Lock()
	defer l.mu.Unlock()
	ls := *l.lines
	if len(ls) > n {
		ls = ls[len(ls)-n:]
	}
	return append([]string(nil), ls...)
}
