package chainsim

import (
	"context"
	"fmt"
	"strings"
	"time"

	"github.com/LiskHQ/lisk-engine/pkg/blockchain"
	"github.com/LiskHQ/lisk-engine/pkg/consensus"
	"github.com/LiskHQ/lisk-engine/pkg/consensus/contradiction"
	"github.com/LiskHQ/lisk-engine/pkg/p2p"

	"verif/sim/refmodel"
	"verif/sim/simkit"
	"verif/sim/simrt"
)

// ForkChoiceMonitor carries the oracles of C07 on the histories the simulated network (with its adversary) produces:
//   - every block a node's consensus loop takes from its queue is classified by the reference fork choice from the
//     node's tip, the incoming header, the slot in which the tip was received and the current slot; what the node then
//     does (events, sync requests, the branch it logs) must fit the class;
//   - the contradiction predicate is evaluated in both argument orders on every pair (new header, earlier header of the
//     same generator seen in this run, honest or Byzantine) and compared with the reference predicate, and on pairs of
//     different generators;
//   - a block of an honest generator is never rejected as contradicting, and an applied block never contradicts its
//     generator's most recent header inside the window of the chain it extends.
type ForkChoiceMonitor struct {
	W            *World
	S            *Sim
	M            *Monitor
	Report       Reporter
	received     map[int]map[string]int // node -> (tip id -> slot in which it came in through the consensus loop); at most the current tip
	recBefore    map[int]recEntry
	everReceived map[int]map[string]int // node -> block id -> slot of its arrival through the consensus loop (since the last start)
	evs          map[int][]string       // node -> events since BeforeProcess ("n:<id>", "d:<id>")
	infos        map[int][]string
	seen         map[string][]refmodel.BFTHeader // generator -> distinct headers seen
	queue        [][4]string
}

func NewForkChoiceMonitor(w *World, m *Monitor, report Reporter) *ForkChoiceMonitor {
	f := &ForkChoiceMonitor{W: w, S: w.S, M: m, Report: report, received: map[int]map[string]int{}, recBefore: map[int]recEntry{}, everReceived: map[int]map[string]int{}, evs: map[int][]string{}, infos: map[int][]string{}, seen: map[string][]refmodel.BFTHeader{}}
	for _, n := range w.S.Nodes {
		n := n
		prev := n.OnEventSync
		n.OnEventSync = func(nn *Node, msg interface{}) {
			if prev != nil {
				prev(nn, msg)
			}
			switch e := msg.(type) {
			case *consensus.EventBlockNewMessage:
				f.evs[nn.ID] = append(f.evs[nn.ID], "n:"+string(e.Block.Header.ID))
				// whenever the tip changes, what was known about the old tip's arrival is gone; processed() records
				// the new tip's arrival if it came in through the consensus loop (a synced tip has no receive time)
				delete(f.received, nn.ID)
				f.onApplied(nn, e.Block)
			case *consensus.EventBlockDeleteMessage:
				f.evs[nn.ID] = append(f.evs[nn.ID], "d:"+string(e.Block.Header.ID))
				// the block that becomes the tip again is read back from the database: its receive time is not kept
				delete(f.received, nn.ID)
			}
		}
		n.Log.OnInfo = func(msg string) { f.infos[n.ID] = append(f.infos[n.ID], msg) }
	}
	// the receive time of the tip lives in the executer's memory: a restarted node does not know it any more (and
	// treats its tip as received in time)
	prevRestart := w.OnRestart
	w.OnRestart = func(n *Node) {
		if prevRestart != nil {
			prevRestart(n)
		}
		delete(f.received, n.ID)
		delete(f.everReceived, n.ID)
	}
	w.S.Hooks.BeforeProcess = func(n *Node) {
		f.evs[n.ID] = nil
		f.infos[n.ID] = nil
		delete(f.recBefore, n.ID)
		for id, slot := range f.received[n.ID] {
			if id == string(n.Tip().ID) {
				f.recBefore[n.ID] = recEntry{id, slot}
			}
		}
	}
	w.S.Hooks.Processed = f.processed
	prevAfter := w.S.Hooks.AfterNodeStep
	w.S.Hooks.AfterNodeStep = func(n *Node, what string) {
		if prevAfter != nil {
			prevAfter(n, what)
		}
		q := f.queue
		f.queue = nil
		for _, v := range q {
			f.Report(v[0], v[1], v[2], v[3])
		}
	}
	return f
}

func (f *ForkChoiceMonitor) report(oracle, witness, msg string) {
	f.queue = append(f.queue, [4]string{"C07", oracle, witness, msg})
}

func (f *ForkChoiceMonitor) fcHeader(n *Node, h *blockchain.BlockHeader) refmodel.FCHeader {
	return refmodel.FCHeader{ID: string(h.ID), PrevID: string(h.PreviousBlockID), Generator: string(h.GeneratorAddress), Height: h.Height, MaxHeightPrevoted: h.MaxHeightPrevoted,
		Slot: n.Exec.GetSlotNumber(h.Timestamp)}
}

func (f *ForkChoiceMonitor) processed(n *Node, b *blockchain.Block, from p2p.PeerID, tipBefore *blockchain.BlockHeader, err error, rpcs int) {
	if n.IsAdversary {
		return
	}
	nowSlot := n.Exec.GetSlotNumber(uint32(simrtNowUnixFor(n)))
	// what the node can know about its tip's arrival: recorded when the tip came in through the consensus loop and kept
	// only while that block stays the tip (recBefore is the state before this block was processed: the events of this
	// very call have already cleared the map)
	var tipSlot *int
	if r, ok := f.recBefore[n.ID]; ok && r.id == string(tipBefore.ID) {
		s := r.slot
		tipSlot = &s
	}
	rec := map[string]int{}
	if f.received[n.ID] != nil {
		rec = f.received[n.ID]
	} else if len(f.evs[n.ID]) == 0 {
		// nothing changed: the record stays
		if r, ok := f.recBefore[n.ID]; ok {
			rec[r.id] = r.slot
		}
	}
	f.received[n.ID] = rec
	class := refmodel.Classify(f.fcHeader(n, tipBefore), f.fcHeader(n, b.Header), tipSlot, nowSlot)
	// A node may also still know when it first received a block that was the tip before, stopped being it (sync,
	// tie break) and is the tip again: a true fact about the tip, which the rule may use or not. Where the two states of
	// knowledge lead to different classes, either reaction is right and there is no verdict.
	if ever, ok := f.everReceived[n.ID][string(tipBefore.ID)]; ok && tipSlot == nil {
		if alt := refmodel.Classify(f.fcHeader(n, tipBefore), f.fcHeader(n, b.Header), &ever, nowSlot); alt != class {
			simkit.Probe("c07_receive_time_knowledge_ambiguous_no_verdict")
			f.noteReceived(n, b, nowSlot)
			return
		}
	}
	defer f.noteReceived(n, b, nowSlot)
	simkit.Probe("c07_classified_" + strings.ReplaceAll(class.String(), " ", "_"))
	evs := f.evs[n.ID]
	infos := strings.Join(f.infos[n.ID], " | ")
	nNew, nDel := 0, 0
	for _, e := range evs {
		if e[0] == 'n' {
			nNew++
		} else {
			nDel++
		}
	}
	desc := fmt.Sprintf("%s with tip (height %d, maxHeightPrevoted %d, id %s, slot %d, received in slot %v) got block (height %d, maxHeightPrevoted %d, id %s, previous %s, slot %d, same generator %v) from %q in slot %d: the rule says %q; the node added %d and removed %d blocks, sent %d sync requests, logged [%s], error %v",
		n.Name, tipBefore.Height, tipBefore.MaxHeightPrevoted, short(tipBefore.ID), n.Exec.GetSlotNumber(tipBefore.Timestamp), slotStr(tipSlot), b.Header.Height, b.Header.MaxHeightPrevoted, short(b.Header.ID), short(b.Header.PreviousBlockID),
		n.Exec.GetSlotNumber(b.Header.Timestamp), string(b.Header.GeneratorAddress) == string(tipBefore.GeneratorAddress), from, nowSlot, class, nNew, nDel, rpcs, infos, err)
	honestSigned := false
	if v := f.validator(b.Header.GeneratorAddress); v != nil && !v.Byzantine {
		honestSigned = b.Header.VerifySignature(f.W.P.ChainID, v.GenPub)
	}
	switch class {
	case refmodel.FCIdentical, refmodel.FCDoubleForging, refmodel.FCDiscard:
		if nNew+nDel > 0 || rpcs > 0 {
			f.report("fork-choice", "acted-on-"+strings.ReplaceAll(class.String(), " ", "-"), desc)
		}
	case refmodel.FCValidSuccessor:
		if nDel > 0 || rpcs > 0 || nNew > 1 || (nNew == 1 && evs[0] != "n:"+string(b.Header.ID)) {
			f.report("fork-choice", "successor-not-simply-appended", desc)
		}
		if nNew == 1 {
			rec[string(b.Header.ID)] = nowSlot
		}
	case refmodel.FCTieBreak:
		simkit.Probe("c07_tie_break_expected")
		ok := len(evs) == 0 && !honestSigned // a block that fails static validation is dropped
		if len(evs) == 2 && evs[0] == "d:"+string(tipBefore.ID) && (evs[1] == "n:"+string(b.Header.ID) || evs[1] == "n:"+string(tipBefore.ID)) {
			ok = true
		}
		if rpcs > 0 || !ok {
			f.report("fork-choice", "tie-break-not-performed", desc)
		}
		if len(evs) == 2 && evs[1] == "n:"+string(b.Header.ID) {
			rec[string(b.Header.ID)] = nowSlot
		}
		if len(evs) == 2 && evs[1] == "n:"+string(tipBefore.ID) && tipSlot != nil {
			rec[string(tipBefore.ID)] = *tipSlot // the original tip came back and keeps its arrival record
		}
	case refmodel.FCDifferentChain:
		if !strings.Contains(infos, "Detected different chain") {
			f.report("fork-choice", "better-chain-not-followed", desc)
		}
	}
}

// noteReceived remembers, per node, the slot in which a block that became the tip through the consensus loop arrived
// (forgotten at restart).
func (f *ForkChoiceMonitor) noteReceived(n *Node, b *blockchain.Block, nowSlot int) {
	if string(n.Tip().ID) != string(b.Header.ID) {
		return
	}
	for _, e := range f.evs[n.ID] {
		if e == "n:"+string(b.Header.ID) {
			if f.everReceived[n.ID] == nil {
				f.everReceived[n.ID] = map[string]int{}
			}
			f.everReceived[n.ID][string(b.Header.ID)] = nowSlot
		}
	}
}

func slotStr(s *int) string {
	if s == nil {
		return "none (sync/own/start)"
	}
	return fmt.Sprint(*s)
}

func (f *ForkChoiceMonitor) validator(addr []byte) *Validator {
	for _, v := range f.W.Vals {
		if string(v.Address) == string(addr) {
			return v
		}
	}
	return nil
}

type recEntry struct {
	id   string
	slot int
}

type plainHeader struct{ h refmodel.BFTHeader }

func (p plainHeader) Height() uint32             { return p.h.Height }
func (p plainHeader) GeneratorAddress() []byte   { return []byte(p.h.Generator) }
func (p plainHeader) MaxHeightGenerated() uint32 { return p.h.MaxHeightGenerated }
func (p plainHeader) MaxHeightPrevoted() uint32  { return p.h.MaxHeightPrevoted }

// onApplied runs inside the executer's publication of a new block.
func (f *ForkChoiceMonitor) onApplied(n *Node, b *blockchain.Block) {
	h := refmodel.BFTHeader{Height: b.Header.Height, Generator: string(b.Header.GeneratorAddress), MaxHeightGenerated: b.Header.MaxHeightGenerated, MaxHeightPrevoted: b.Header.MaxHeightPrevoted}
	// (1) an applied block never contradicts its generator's most recent header inside the window of the chain it extends
	if parent := f.M.Tree.ByID[string(b.Header.PreviousBlockID)]; parent != nil {
		if last, ok := parent.BFT.LastHeaderOf(h.Generator); ok {
			simkit.Probe("c07_applied_block_checked_against_generators_last_header")
			if v := f.validator(b.Header.GeneratorAddress); v != nil && v.Byzantine {
				simkit.Probe("c07_applied_block_of_byzantine_generator_checked")
			}
			if refmodel.Contradicting(last, h) {
				f.report("contradiction", "contradicting-header-applied", fmt.Sprintf("%s applied block %d/%s (maxHeightPrevoted %d, maxHeightGenerated %d) although it contradicts its generator's most recent header in the window (height %d, maxHeightPrevoted %d, maxHeightGenerated %d)",
					n.Name, h.Height, short(b.Header.ID), h.MaxHeightPrevoted, h.MaxHeightGenerated, last.Height, last.MaxHeightPrevoted, last.MaxHeightGenerated))
			}
		}
	}
	// (2) symmetry and agreement of the predicate on the pairs this history offers
	list := f.seen[h.Generator]
	for _, o := range list {
		if o == h {
			return
		}
	}
	for _, o := range list {
		f.comparePair(o, h)
	}
	// a header of another generator: never contradicting
	for g, l := range f.seen {
		if g != h.Generator && len(l) > 0 {
			o := l[len(l)-1]
			if contradiction.AreDistinctHeadersContradicting(plainHeader{o}, plainHeader{h}) || contradiction.AreDistinctHeadersContradicting(plainHeader{h}, plainHeader{o}) {
				f.report("contradiction", "different-generators", fmt.Sprintf("headers of different generators are reported as contradicting: %+v / %+v", o, h))
			}
			break
		}
	}
	if len(list) > 40 {
		list = list[1:]
	}
	f.seen[h.Generator] = append(list, h)
}

func (f *ForkChoiceMonitor) comparePair(a, b refmodel.BFTHeader) {
	simkit.Probe("c07_header_pair_compared")
	ab := contradiction.AreDistinctHeadersContradicting(plainHeader{a}, plainHeader{b})
	ba := contradiction.AreDistinctHeadersContradicting(plainHeader{b}, plainHeader{a})
	want := refmodel.Contradicting(a, b)
	if want {
		simkit.Probe("c07_contradicting_pair_seen")
	}
	p := func(h refmodel.BFTHeader) string {
		return fmt.Sprintf("(height %d, maxHeightPrevoted %d, maxHeightGenerated %d)", h.Height, h.MaxHeightPrevoted, h.MaxHeightGenerated)
	}
	if ab != ba {
		f.report("contradiction", "asymmetric", fmt.Sprintf("headers %s and %s of one generator: contradicting(a,b)=%v but contradicting(b,a)=%v", p(a), p(b), ab, ba))
		return
	}
	if ab != want {
		f.report("contradiction", "disagrees-with-rule", fmt.Sprintf("headers %s and %s of one generator: the node's predicate says %v, the rule says %v", p(a), p(b), ab, want))
	}
}

// OnByzantineBlock feeds headers the adversary signed (they may never be applied by anybody) into the pair comparison.
func (f *ForkChoiceMonitor) OnByzantineBlock(b *blockchain.Block) {
	h := refmodel.BFTHeader{Height: b.Header.Height, Generator: string(b.Header.GeneratorAddress), MaxHeightGenerated: b.Header.MaxHeightGenerated, MaxHeightPrevoted: b.Header.MaxHeightPrevoted}
	list := f.seen[h.Generator]
	for _, o := range list {
		if o == h {
			return
		}
	}
	for _, o := range list {
		f.comparePair(o, h)
	}
	f.seen[h.Generator] = append(list, h)
}

// StartProbes adds a peer that, every `every` of simulated time, sends one node a crafted relative of its own tip: same
// height, parent and maxHeightPrevoted by the tip's generator (double forging) or by another validator (tie-break
// candidate), in the current slot or an earlier one; the same block with a larger maxHeightPrevoted, or a larger height
// on another parent (better chain); a lower height (discard). The blocks are signed by the right keys and mostly not
// valid successors of anything: what is under test is the classification the node makes before it validates.
func (f *ForkChoiceMonitor) StartProbes(every time.Duration) {
	var tick func()
	tick = func() {
		f.probe()
		f.S.At(every, "fork choice probe", tick)
	}
	f.S.At(every, "fork choice probe", tick)
}

func (f *ForkChoiceMonitor) probe() {
	t := f.W.T
	var ups []*Node
	for _, n := range f.S.Nodes {
		if n.Up && !n.IsAdversary && n.Tip().Height >= 2 {
			ups = append(ups, n)
		}
	}
	if len(ups) == 0 {
		return
	}
	n := ups[simkit.Int(t, "fcnode", 0, len(ups)-1)]
	tipBlock := n.Chain.LastBlock()
	tip := tipBlock.Header
	c := cloneBlock(tipBlock)
	signer := f.validator(tip.GeneratorAddress)
	now := uint32(simrt.C.NowTrue().Add(n.Skew).Unix())
	kind := simkit.Int(t, "fckind", 0, 6)
	name := ""
	switch kind {
	case 0:
		name = "same-generator-duplicate-now"
		c.Header.Timestamp = now
	case 1, 2:
		name = "other-generator-duplicate-now"
		o := f.W.Vals[simkit.Int(t, "fcother", 0, len(f.W.Vals)-1)]
		if string(o.Address) == string(tip.GeneratorAddress) {
			return
		}
		signer = o
		c.Header.GeneratorAddress = o.Address
		c.Header.Timestamp = now
	case 3:
		name = "other-generator-duplicate-earlier-slot"
		o := f.W.Vals[simkit.Int(t, "fcother", 0, len(f.W.Vals)-1)]
		if string(o.Address) == string(tip.GeneratorAddress) {
			return
		}
		signer = o
		c.Header.GeneratorAddress = o.Address
		c.Header.Timestamp = tip.Timestamp - f.W.P.BlockTime
	case 4:
		name = "same-height-larger-maxHeightPrevoted"
		c.Header.MaxHeightPrevoted = tip.MaxHeightPrevoted + 1
		c.Header.Timestamp = now
	case 5:
		name = "larger-height-other-parent"
		c.Header.Height = tip.Height + uint32(simkit.Int(t, "fcup", 1, 2))
		c.Header.PreviousBlockID = flip(tip.PreviousBlockID)
		c.Header.Timestamp = now
	default:
		name = "lower-height"
		c.Header.Height = tip.Height - 1
		c.Header.Timestamp = now
	}
	if signer == nil {
		return
	}
	c.Header.Sign(f.W.P.ChainID, signer.GenPriv)
	simkit.Fault("crafted_fork_choice_probe_" + name)
	payload := c.Encode()
	f.S.Step(n, "fork choice probe "+name, func() {
		if n.Conn.VerifValidate(context.Background(), consensus.P2PEventPostBlock, payload) == p2p.ValidationAccept {
			n.Conn.VerifHandleEvent("peer-probe", consensus.P2PEventPostBlock, payload)
		}
	})
}
