// Package chainsim runs N whole lisk-engine nodes in one process on a discrete-event loop: real chain, consensus
// executer, Lisk-BFT, certificate pool, syncer, generator, transaction pool, ABI handler + state machine and pebble
// on the simulated disk; simulated network (the p2p stub's transport), clock and faults; a Byzantine adversary.
package chainsim

import (
	"crypto/sha256"
	"fmt"

	"github.com/LiskHQ/lisk-engine/pkg/crypto"
	"github.com/LiskHQ/lisk-engine/pkg/generator"
	"github.com/LiskHQ/lisk-engine/pkg/labi"
)

// Validator is one identity with all its keys (derived from its index, never from crypto/rand).
type Validator struct {
	Index     int
	Address   []byte
	GenPub    []byte
	GenPriv   []byte
	BLSPub    []byte
	BLSPriv   []byte
	Byzantine bool
	Node      int // honest node that generates for it (-1 for Byzantine validators)
}

func NewValidator(i int) *Validator {
	pub, priv, err := crypto.GetKeys(fmt.Sprintf("chainsim-validator-%d", i))
	if err != nil {
		panic(err)
	}
	seed := sha256.Sum256([]byte(fmt.Sprintf("chainsim-bls-%d", i)))
	bls := crypto.BLSKeyGen(seed[:])
	return &Validator{Index: i, Address: crypto.GetAddress(pub), GenPub: pub, GenPriv: priv, BLSPub: bls.PublicKey, BLSPriv: bls.PrivateKey, Node: -1}
}

func (v *Validator) Labi(weight uint64) *labi.Validator {
	return &labi.Validator{Address: v.Address, BFTWeight: weight, GeneratorKey: v.GenPub, BLSKey: v.BLSPub}
}

func (v *Validator) PlainKeys() *generator.PlainKeys {
	return &generator.PlainKeys{GeneratorKey: v.GenPub, GeneratorPrivateKey: v.GenPriv, BLSKey: v.BLSPub, BLSPrivateKey: v.BLSPriv}
}
