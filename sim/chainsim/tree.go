package chainsim

import (
	"fmt"

	"github.com/LiskHQ/lisk-engine/pkg/blockchain"
	"github.com/LiskHQ/lisk-engine/pkg/labi"

	"verif/sim/refmodel"
	"verif/sim/simkit"
	"verif/sim/simmod"
)

// TreeBlock is one block of the global fork tree the simulator has seen, with the reference consensus state after it.
type TreeBlock struct {
	ID            string
	Header        *blockchain.BlockHeader
	Parent        *TreeBlock
	BFT           *refmodel.BFTState
	Block         *blockchain.Block
	ByzantineMade bool
}

// Tree is the fork tree of all valid blocks any node applied (plus what the adversary built).
type Tree struct {
	ByID    map[string]*TreeBlock
	Genesis *TreeBlock
	P       *ChainParams
}

func hdrToRef(h *blockchain.BlockHeader) refmodel.BFTHeader {
	return refmodel.BFTHeader{Height: h.Height, Generator: string(h.GeneratorAddress), MaxHeightGenerated: h.MaxHeightGenerated, MaxHeightPrevoted: h.MaxHeightPrevoted,
		CommitHeight: h.AggregateCommit.Height, CommitEmpty: len(h.AggregateCommit.AggregationBits) == 0 && len(h.AggregateCommit.CertificateSignature) == 0}
}

func paramsFromModule(from uint32, pre, cert uint64, vals []*labi.Validator) *refmodel.BFTParams {
	w := map[string]uint64{}
	for _, v := range vals {
		w[string(v.Address)] = v.BFTWeight
	}
	return refmodel.NewBFTParams(from, pre, cert, w)
}

func NewTree(p *ChainParams) *Tree {
	g := p.Genesis
	first := paramsFromModule(g.Header.Height+1, p.Module.PrecommitThreshold, p.Module.CertificateThreshold, p.Module.GenesisValidators)
	tb := &TreeBlock{ID: string(g.Header.ID), Header: g.Header, Block: g, BFT: refmodel.GenesisBFTState(p.BatchSize, g.Header.Height, first)}
	return &Tree{ByID: map[string]*TreeBlock{tb.ID: tb}, Genesis: tb, P: p}
}

// ChangeAt returns the parameter set the block at this height installs (per the module's schedule), or nil.
func (t *Tree) ChangeAt(height uint32) *refmodel.BFTParams {
	return changeAt(t.P.Module, height)
}

func changeAt(m *simmod.Config, height uint32) *refmodel.BFTParams {
	var out *refmodel.BFTParams
	for _, ch := range m.Changes {
		if ch.Height == height {
			out = paramsFromModule(height+1, ch.PrecommitThreshold, ch.CertificateThreshold, ch.Validators)
		}
	}
	return out
}

// Add registers a block (its parent must be known) and computes the reference state after it.
func (t *Tree) Add(b *blockchain.Block) (*TreeBlock, error) {
	id := string(b.Header.ID)
	if tb, ok := t.ByID[id]; ok {
		return tb, nil
	}
	parent, ok := t.ByID[string(b.Header.PreviousBlockID)]
	if !ok {
		return nil, fmt.Errorf("parent %x of block %x at height %d unknown to the tree", []byte(b.Header.PreviousBlockID)[:4], []byte(b.Header.ID)[:4], b.Header.Height)
	}
	tb := &TreeBlock{ID: id, Header: b.Header, Parent: parent, Block: b}
	ch := t.ChangeAt(b.Header.Height)
	if ch != nil {
		simkit.Probe("validator_change_applied")
	}
	tb.BFT = parent.BFT.Apply(hdrToRef(b.Header), ch)
	t.ByID[id] = tb
	return tb, nil
}

// Ancestor reports whether a is an ancestor of (or equal to) b.
func (t *Tree) Ancestor(a, b *TreeBlock) bool {
	for x := b; x != nil; x = x.Parent {
		if x == a {
			return true
		}
		if x.Header.Height < a.Header.Height {
			return false
		}
	}
	return false
}

// At returns the ancestor of b at the given height.
func (t *Tree) At(b *TreeBlock, height uint32) *TreeBlock {
	for x := b; x != nil; x = x.Parent {
		if x.Header.Height == height {
			return x
		}
	}
	return nil
}
