package chainsim

import (
	"encoding/binary"
	"fmt"
	"sort"

	"github.com/LiskHQ/lisk-engine/pkg/blockchain"

	"verif/sim/simkit"
)

// Integrity is the whole-database side of C13 in the network runs: whatever a node finds on its disk when it comes
// back (after a graceful stop, a kill, a power loss, a kill in the middle of a step) is a union of whole steps. It
// reads every key of the blockchain database and reports
//   - a height index entry without its header, or whose header says another height; holes in the index; entries above
//     the tip the node reports;
//   - a header no height index entry points at (a block half removed or half added);
//   - a transaction list without its block, a listed transaction without its record, a transaction record no block lists;
//   - assets or events without their block;
//   - a revert diff above the tip (a diff without its block) or a missing diff for a block above the finalized height
//     (a block that cannot be removed any more);
//   - a finalized height above the tip.
//
// The consensus store against the tip is checkBFT's business (same call site).
func (m *Monitor) Integrity(n *Node, when string) {
	if !m.Enabled["C13"] || !n.Up {
		return
	}
	dump := dumpMap(n.BlockchainDB)
	tip := n.Tip()
	fin := n.Finalized()
	gh := m.Tree.Genesis.Header.Height
	headers := map[string]uint32{}
	index := map[uint32]string{}
	txLists := map[string][]string{}
	txRecs := map[string]bool{}
	diffs := map[uint32]bool{}
	var bad []string
	add := func(format string, a ...interface{}) { bad = append(bad, fmt.Sprintf(format, a...)) }
	keys := make([]string, 0, len(dump))
	for k := range dump {
		keys = append(keys, k)
	}
	sort.Strings(keys)
	for _, k := range keys {
		v := dump[k]
		if len(k) == 0 {
			continue
		}
		rest := []byte(k[1:])
		switch k[0] {
		case 3:
			h, err := blockchain.NewBlockHeader(v)
			if err != nil {
				add("header record %s does not decode: %v", short(rest), err)
				continue
			}
			headers[string(rest)] = h.Height
		case 4:
			if len(rest) == 4 {
				index[binary.BigEndian.Uint32(rest)] = string(v)
			}
		case 5:
			var ids []string
			for i := 0; i+32 <= len(v); i += 32 {
				ids = append(ids, string(v[i:i+32]))
			}
			txLists[string(rest)] = ids
		case 6:
			txRecs[string(rest)] = true
		case 8:
			if _, ok := dump[string([]byte{3})+string(rest)]; !ok {
				add("assets stored for block %s, which has no header record", short(rest))
			}
		case 9:
			if len(rest) == 4 {
				if h := binary.BigEndian.Uint32(rest); h > tip.Height {
					add("events stored for height %d above the tip %d", h, tip.Height)
				}
			}
		case 51:
			if len(rest) == 4 {
				diffs[binary.BigEndian.Uint32(rest)] = true
			}
		}
	}
	// height index <-> headers
	hs := make([]uint32, 0, len(index))
	for h := range index {
		hs = append(hs, h)
	}
	sort.Slice(hs, func(i, j int) bool { return hs[i] < hs[j] })
	for i, h := range hs {
		id := index[h]
		hh, ok := headers[id]
		switch {
		case !ok:
			add("height index %d points at %s, which has no header record", h, short([]byte(id)))
		case hh != h:
			add("height index %d points at %s, whose header says height %d", h, short([]byte(id)), hh)
		}
		if h > tip.Height {
			add("height index has an entry for %d above the tip %d", h, tip.Height)
		}
		if i > 0 && h != hs[i-1]+1 {
			add("height index has a hole between %d and %d", hs[i-1], h)
		}
	}
	if len(hs) > 0 && hs[len(hs)-1] < tip.Height {
		add("height index ends at %d below the tip %d", hs[len(hs)-1], tip.Height)
	}
	if id, ok := index[tip.Height]; ok && id != string(tip.ID) {
		add("height index at the tip height %d points at %s, the node reports tip %s", tip.Height, short([]byte(id)), short(tip.ID))
	}
	ids := make([]string, 0, len(headers))
	for id := range headers {
		ids = append(ids, id)
	}
	sort.Strings(ids)
	for _, id := range ids {
		if index[headers[id]] != id {
			add("header record %s (height %d) is not what the height index points at", short([]byte(id)), headers[id])
		}
	}
	// transactions
	listed := map[string]bool{}
	lids := make([]string, 0, len(txLists))
	for id := range txLists {
		lids = append(lids, id)
	}
	sort.Strings(lids)
	for _, id := range lids {
		if _, ok := headers[id]; !ok {
			add("transaction list stored for block %s, which has no header record", short([]byte(id)))
		}
		for _, tx := range txLists[id] {
			listed[tx] = true
			if !txRecs[tx] {
				add("block %s lists transaction %s, which has no record", short([]byte(id)), short([]byte(tx)))
			}
		}
	}
	tids := make([]string, 0, len(txRecs))
	for tx := range txRecs {
		tids = append(tids, tx)
	}
	sort.Strings(tids)
	for _, tx := range tids {
		if !listed[tx] {
			add("transaction record %s is listed by no block", short([]byte(tx)))
		}
	}
	// revert diffs
	dhs := make([]uint32, 0, len(diffs))
	for h := range diffs {
		dhs = append(dhs, h)
	}
	sort.Slice(dhs, func(i, j int) bool { return dhs[i] < dhs[j] })
	for _, h := range dhs {
		if h > tip.Height {
			add("revert diff stored for height %d above the tip %d (a diff without its block)", h, tip.Height)
		}
	}
	lo := fin
	if gh > lo {
		lo = gh
	}
	for h := lo + 1; h <= tip.Height && h > lo; h++ {
		if !diffs[h] {
			add("no revert diff for block %d above the finalized height %d (tip %d): the block cannot be removed", h, fin, tip.Height)
		}
	}
	if fin > tip.Height {
		add("finalized height %d above the tip %d", fin, tip.Height)
	}
	simkit.Probe("c13_database_integrity_scanned_" + when)
	if len(bad) > 0 {
		more := ""
		if len(bad) > 4 {
			more = fmt.Sprintf(" (and %d more)", len(bad)-4)
			bad = bad[:4]
		}
		m.report("C13", "database-integrity", when, "%s %s (tip %d/%s, finalized %d): %v%s", n.Name, when, tip.Height, short(tip.ID), fin, bad, more)
	}
}
