package chainsim

import (
	"bytes"
	"context"
	"errors"
	"fmt"

	"github.com/LiskHQ/lisk-engine/pkg/blockchain"
	"github.com/LiskHQ/lisk-engine/pkg/db"
	"github.com/LiskHQ/lisk-engine/pkg/p2p"

	"verif/sim/simfs"
)

// nullTransport is the network of a node that talks to nobody (the crash victim and its twin are fed directly).
type nullTransport struct{}

func (nullTransport) Publish(from p2p.PeerID, topic string, data []byte) error { return nil }
func (nullTransport) Request(ctx context.Context, from, to p2p.PeerID, procedure string, data []byte) p2p.Response {
	return p2p.VerifResponse(to, nil, errors.New("no network"))
}
func (nullTransport) Peers(of p2p.PeerID) p2p.PeerIDs        { return nil }
func (nullTransport) Ban(by, whom p2p.PeerID)                {}
func (nullTransport) Penalty(by, whom p2p.PeerID, score int) {}

// NewDetachedNode builds a node with the run's chain parameters that is not part of the simulated network.
func (s *Sim) NewDetachedNode(name string) *Node {
	n := NewNode(1000+len(s.Detached), s.P, nullTransport{})
	n.Name = name
	n.Peer = p2p.PeerID("peer-" + name)
	s.Detached = append(s.Detached, n)
	return n
}

// ChainOp is one change of a node's chain as observed from its event stream: a block added on the tip or the tip
// block removed.
type ChainOp struct {
	Delete bool
	Block  *blockchain.Block
	// drawn by the harness
	SaveTemp   bool
	RemoveTemp bool
}

func (o ChainOp) String() string {
	k := "add"
	if o.Delete {
		k = "delete"
	}
	return fmt.Sprintf("%s block %d (%x)", k, o.Block.Header.Height, []byte(o.Block.Header.ID)[:4])
}

// Apply runs the operation on the node through the executer's own entry points.
func (o ChainOp) Apply(n *Node) error {
	b := cloneBlock(o.Block)
	if o.Delete {
		return n.Exec.VerifDeleteBlock(b, o.SaveTemp)
	}
	return n.Exec.VerifProcessValidated(b, false, o.RemoveTemp)
}

// ApplyCrashable runs the operation as "the process" of the node's current disk generation: if the disk reaches its
// armed crash point the call returns crashed = true and everything the operation started stays frozen.
func (o ChainOp) ApplyCrashable(n *Node) (crashed bool, err error, panicVal interface{}) {
	crashed, panicVal = simfs.RunCrashable(n.FS, func() { err = o.Apply(n) })
	return
}

// DumpDiff describes how two dumps differ (first few keys), "" if equal.
func DumpDiff(a, b []db.VerifKV) string {
	am := map[string][]byte{}
	for _, kv := range a {
		am[string(kv.K)] = kv.V
	}
	bm := map[string][]byte{}
	for _, kv := range b {
		bm[string(kv.K)] = kv.V
	}
	var out []string
	add := func(s string) {
		if len(out) < 6 {
			out = append(out, s)
		}
	}
	n := 0
	for _, kv := range a {
		v, ok := bm[string(kv.K)]
		if !ok {
			n++
			add(fmt.Sprintf("only in first: %s", keyName(kv.K)))
		} else if !bytes.Equal(v, kv.V) {
			n++
			add(fmt.Sprintf("differs: %s", keyName(kv.K)))
		}
	}
	for _, kv := range b {
		if _, ok := am[string(kv.K)]; !ok {
			n++
			add(fmt.Sprintf("only in second: %s", keyName(kv.K)))
		}
	}
	if n == 0 {
		return ""
	}
	return fmt.Sprintf("%d keys differ %v", n, out)
}

// key prefixes of the blockchain database (pkg/blockchain/data_access.go), for readable reports only
var prefixNames = map[byte]string{3: "blockID→header", 4: "height→blockID", 5: "blockID→txIDs", 6: "txID→tx", 7: "tempBlock", 8: "blockID→assets",
	9: "height→events", 27: "finalizedHeight", 10: "consensusState", 51: "stateDiff"}

func keyName(k []byte) string {
	if len(k) > 0 {
		if n, ok := prefixNames[k[0]]; ok {
			rest := k[1:]
			if len(rest) > 8 {
				rest = rest[:8]
			}
			return fmt.Sprintf("%s/%x", n, rest)
		}
	}
	if len(k) > 10 {
		k = k[:10]
	}
	return fmt.Sprintf("%x", k)
}
