package chainsim

import (
	"bytes"
	"fmt"
	"sort"
	"time"

	"github.com/LiskHQ/lisk-engine/pkg/blockchain"
	"github.com/LiskHQ/lisk-engine/pkg/consensus"
	"github.com/LiskHQ/lisk-engine/pkg/consensus/certificate"
	"github.com/LiskHQ/lisk-engine/pkg/crypto"
	"github.com/LiskHQ/lisk-engine/pkg/p2p"

	"verif/sim/refmodel"
	"verif/sim/simkit"
)

// CertMonitor carries the certificate oracles of C06.
//
//  1. Self-consistency: whenever a node would put an aggregate commit into a block (GetAggregateCommit on its pool and
//     chain as they are), its own verifyAggregateCommit accepts it.
//  2. Soundness by construction: a "certificate forger" (the harness holds every BLS key) builds aggregate commits for
//     a node's current chain from a drawn height, a drawn signer subset and a drawn tampering, and knows from the
//     construction alone whether the rule admits it: un-tampered, every signer an active validator of that height,
//     signer weight >= that height's certificate threshold, last certified < height <= precommitted, and height below
//     the first parameter change after the last certified height. The node's verdict must be the same.
//  3. Pool admission: drawn single commits (right/wrong validator, height, block id, key) are offered through the
//     gossip validator; one that is in the pool afterwards must be by a validator active at that height and carry a
//     valid signature over the certificate of the node's own block at that height.
type CertMonitor struct {
	W      *World
	S      *Sim
	M      *Monitor
	Report Reporter
}

func NewCertMonitor(w *World, m *Monitor, report Reporter, probeEvery time.Duration) *CertMonitor {
	c := &CertMonitor{W: w, S: w.S, M: m, Report: report}
	prev := w.S.Hooks.AfterNodeStep
	w.S.Hooks.AfterNodeStep = func(n *Node, what string) {
		if prev != nil {
			prev(n, what)
		}
		if what == "tick" && n.Up && !n.IsAdversary {
			c.ownAggregate(n)
		}
	}
	if probeEvery > 0 {
		var tick func()
		tick = func() {
			c.probe()
			w.S.At(probeEvery, "certificate probe", tick)
		}
		w.S.At(probeEvery, "certificate probe", tick)
	}
	return c
}

func (c *CertMonitor) ownAggregate(n *Node) {
	ac, err := n.Exec.GetAggregateCommit()
	if err != nil {
		c.Report("C06", "own-aggregate", "assembly-failed", fmt.Sprintf("%s cannot assemble an aggregate commit from its pool: %v", n.Name, err))
		return
	}
	if ac.Empty() {
		return
	}
	simkit.Probe("c06_own_aggregate_checked")
	if err := n.Exec.VerifVerifyAggregateCommit(ac); err != nil {
		_, pc, cert := n.Heights()
		c.Report("C06", "own-aggregate", "rejected", fmt.Sprintf("%s assembled an aggregate commit for height %d (bits %x) from its own pool and rejects it itself: %v (tip %d, precommitted %d, certified %d)", n.Name, ac.Height, []byte(ac.AggregationBits), err, n.Tip().Height, pc, cert))
	}
}

type activeVal struct {
	v      *Validator
	weight uint64
}

// activeAt lists the validators with BFT weight at height h according to the reference state of the node's tip,
// in ascending BLS key order (the order aggregation bits refer to).
func (c *CertMonitor) activeAt(st *refmodel.BFTState, h uint32) ([]activeVal, uint64) {
	p := st.ParamsAt(h)
	if p == nil {
		return nil, 0
	}
	var out []activeVal
	for _, v := range c.W.Vals {
		if w := p.Weights[string(v.Address)]; w > 0 {
			out = append(out, activeVal{v, w})
		}
	}
	sort.Slice(out, func(i, j int) bool { return bytes.Compare(out[i].v.BLSPub, out[j].v.BLSPub) < 0 })
	return out, p.CertificateThreshold
}

func (c *CertMonitor) pickNode() *Node {
	var ups []*Node
	for _, n := range c.S.Nodes {
		if n.Up && !n.IsAdversary {
			ups = append(ups, n)
		}
	}
	if len(ups) == 0 {
		return nil
	}
	return ups[simkit.Int(c.W.T, "certnode", 0, len(ups)-1)]
}

func (c *CertMonitor) probe() {
	n := c.pickNode()
	if n == nil {
		return
	}
	tb := c.M.Tree.ByID[string(n.Tip().ID)]
	if tb == nil {
		return
	}
	if simkit.Bool(c.W.T, "probekind") {
		c.probeAggregate(n, tb)
	} else {
		c.probeSingle(n, tb)
	}
}

func setBit(bits []byte, i int) {
	if i/8 < len(bits) {
		bits[i/8] |= 1 << uint(i%8)
	}
}

func (c *CertMonitor) probeAggregate(n *Node, tb *TreeBlock) {
	t := c.W.T
	st := tb.BFT
	certified, precommitted := st.MaxHeightCertified, st.MaxHeightPrecommitted
	tipH := n.Tip().Height
	// height: around the window (certified, precommitted], the next parameter change, and beyond
	lo := int(certified) - 1
	if lo < 1 {
		lo = 1
	}
	hi := int(precommitted) + 2
	if hi > int(tipH) {
		hi = int(tipH)
	}
	if hi < lo {
		return
	}
	h := uint32(simkit.Int(t, "certheight", lo, hi))
	nextChange, hasNext := st.NextParamsAfter(certified + 1) // first height > certified+1 at which a new parameter set starts (LIP-0061)
	if hasNext && simkit.Chance(t, "atchange", 1, 3) && nextChange >= 1 && nextChange+1 <= tipH && int(nextChange)-1 >= 1 {
		h = nextChange - 1 + uint32(simkit.Int(t, "aroundchange", 0, 1))
	}
	header, err := n.Chain.DataAccess().GetBlockHeaderByHeight(h)
	if err != nil {
		return
	}
	act, threshold := c.activeAt(st, h)
	if len(act) == 0 || len(act) > 24 {
		return
	}
	// signer subset
	var signers []int
	weight := uint64(0)
	for i := range act {
		if simkit.Chance(t, "signs", 2, 3) {
			signers = append(signers, i)
			weight += act[i].weight
		}
	}
	if len(signers) == 0 {
		return
	}
	tamper := simkit.Int(t, "certtamper", 0, 9)
	certHeader := header
	msgOK := true
	if tamper == 1 && h > 1 {
		// the signatures are over the certificate of another block of the chain
		if other, err := n.Chain.DataAccess().GetBlockHeaderByHeight(h - 1); err == nil {
			certHeader, msgOK = other, false
		}
	}
	var pairs []*crypto.BLSPublicKeySignaturePair
	var keys [][]byte
	for _, a := range act {
		keys = append(keys, a.v.BLSPub)
	}
	for _, i := range signers {
		sc := certificate.NewSingleCommit(certHeader, act[i].v.Address, c.W.P.ChainID, act[i].v.BLSPriv)
		pairs = append(pairs, &crypto.BLSPublicKeySignaturePair{PublicKey: act[i].v.BLSPub, Signature: sc.CertificateSignature()})
	}
	_, sig := crypto.BLSCreateAggSig(keys, pairs) // aggregation of the signatures; the bit layout below is ours
	bits := make([]byte, (len(act)+7)/8)
	for _, i := range signers {
		setBit(bits, i)
	}
	bitsOK := true
	padding := false
	what := "none"
	switch tamper {
	case 1:
		what = "signed-other-block"
	case 2:
		what = "signature-bit"
		sig = flip(sig)
		msgOK = false
	case 3:
		// claim a signer that did not sign
		for i := range act {
			found := false
			for _, j := range signers {
				if i == j {
					found = true
				}
			}
			if !found {
				setBit(bits, i)
				bitsOK = false
				what = "extra-signer-bit"
				break
			}
		}
	case 4:
		// bits laid out over the keys in descending order
		if len(signers) < len(act) {
			b2 := make([]byte, len(bits))
			for _, i := range signers {
				setBit(b2, len(act)-1-i)
			}
			if !bytes.Equal(b2, bits) {
				bits, bitsOK, what = b2, false, "bits-descending-order"
			}
		}
	case 5:
		if len(bits) > 1 {
			dropped := bits[len(bits)-1]
			bits, what = bits[:len(bits)-1], "bits-truncated"
			if dropped != 0 {
				bitsOK = false // signers were cut off: the signature no longer matches the claimed set
			} else {
				padding = true
			}
		}
	case 6:
		// same signer set, one more (zero) byte: a second encoding of the same certificate. Whether that is to be
		// rejected is a canonical-form question the property does not settle; only a panic counts here.
		bits, what, padding = append(bits, 0), "bits-extra-byte", true
	}
	ac := &blockchain.AggregateCommit{Height: h, AggregationBits: bits, CertificateSignature: sig}
	expect := msgOK && bitsOK && weight >= threshold && h > certified && h <= precommitted
	boundReason := ""
	if hasNext && h > nextChange-1 {
		// a certificate must not jump over the block that authenticates the next validator set
		if expect {
			boundReason = fmt.Sprintf(" (height %d is beyond %d, the block before the parameter change at %d)", h, nextChange-1, nextChange)
			simkit.Probe("c06_probe_beyond_next_parameter_change")
		}
		expect = false
	}
	var verdict error
	var pv interface{}
	func() {
		defer func() { pv = recover() }()
		verdict = n.Exec.VerifVerifyAggregateCommit(ac)
	}()
	simkit.Probe("c06_aggregate_probe")
	simkit.Probe("c06_aggregate_probe_tamper_" + what)
	if expect {
		simkit.Probe("c06_aggregate_probe_expected_accept")
	}
	desc := fmt.Sprintf("%s (tip %d, certified %d, precommitted %d, next parameter change %v/%d) given an aggregate commit for height %d signed by %d of %d active validators with weight %d of threshold %d, tampering %q%s",
		n.Name, tipH, certified, precommitted, hasNext, nextChange, h, len(signers), len(act), weight, threshold, what, boundReason)
	if pv != nil {
		c.Report("C09", "panic", "verifyAggregateCommit", desc+fmt.Sprintf(": verification panicked: %v", pv))
		c.Report("C06", "panic", "verifyAggregateCommit", desc+fmt.Sprintf(": verification panicked: %v", pv))
		return
	}
	if padding {
		simkit.Probe("c06_probe_noncanonical_bits_no_verdict")
		return
	}
	if expect && verdict != nil {
		c.Report("C06", "aggregate-verification", "valid-rejected", desc+": rejected: "+verdict.Error())
	}
	if !expect && verdict == nil {
		c.Report("C06", "aggregate-verification", "invalid-accepted/"+whyInvalid(msgOK, bitsOK, weight, threshold, h, certified, precommitted, hasNext, nextChange), desc+": accepted")
	}
}

func whyInvalid(msgOK, bitsOK bool, weight, threshold uint64, h, certified, precommitted uint32, hasNext bool, next uint32) string {
	switch {
	case !msgOK:
		return "signature"
	case !bitsOK:
		return "bits"
	case weight < threshold:
		return "below-threshold"
	case h <= certified:
		return "not-above-certified"
	case h > precommitted:
		return "above-precommitted"
	case hasNext && h > next-1:
		return "beyond-parameter-change"
	}
	return "?"
}

func (c *CertMonitor) probeSingle(n *Node, tb *TreeBlock) {
	t := c.W.T
	st := tb.BFT
	tipH := n.Tip().Height
	if tipH < 1 {
		return
	}
	h := uint32(simkit.Int(t, "scheight", 1, int(tipH)))
	if simkit.Bool(t, "scnearfinal") && st.MaxHeightPrecommitted >= 1 {
		d := simkit.Int(t, "scdelta", -3, 1)
		hh := int(st.MaxHeightPrecommitted) + d
		if hh >= 1 && hh <= int(tipH) {
			h = uint32(hh)
		}
	}
	header, err := n.Chain.DataAccess().GetBlockHeaderByHeight(h)
	if err != nil {
		return
	}
	v := c.W.Vals[simkit.Int(t, "scvalidator", 0, len(c.W.Vals)-1)]
	p := st.ParamsAt(h)
	active := p != nil && p.Weights[string(v.Address)] > 0
	inSet := false // "active validator": member of the parameter set of that height (weight may be 0 for stand-by generators)
	if p != nil {
		_, inSet = p.Weights[string(v.Address)]
	}
	signHeader := header
	sigOK := true
	key := v.BLSPriv
	kind := simkit.Int(t, "sctamper", 0, 4)
	what := "none"
	switch kind {
	case 1:
		if other, err := n.Chain.DataAccess().GetBlockHeaderByHeight(h - 1); err == nil && h > 1 {
			signHeader, sigOK, what = other, false, "signed-other-block"
		}
	case 2:
		o := c.W.Vals[(v.Index+1)%len(c.W.Vals)]
		if o != v {
			key, sigOK, what = o.BLSPriv, false, "signed-with-other-key"
		}
	}
	sc := certificate.NewSingleCommit(signHeader, v.Address, c.W.P.ChainID, key)
	var commit *certificate.SingleCommit
	if what == "signed-other-block" {
		// height and block id of the right block, signature of the other
		commit = certificate.VerifNewSingleCommit(header.ID, header.Height, v.Address, sc.CertificateSignature())
	} else {
		commit = certificate.VerifNewSingleCommit(sc.BlockID(), sc.Height(), v.Address, sc.CertificateSignature())
	}
	if kind == 3 {
		commit = certificate.VerifNewSingleCommit(flip(header.ID), header.Height, v.Address, sc.CertificateSignature())
		sigOK, what = false, "other-block-id"
	}
	pool := n.Exec.VerifPool()
	if pool.Has(commit) {
		return
	}
	data := consensus.VerifPostSingleCommits(certificate.SingleCommits{commit})
	var res p2p.ValidationResult
	var pv interface{}
	c.S.Step(n, "single commit probe", func() {
		defer func() { pv = recover() }()
		res = n.Exec.VerifSingleCommitValidator(data)
	})
	simkit.Probe("c06_single_commit_probe")
	simkit.Probe("c06_single_commit_probe_" + what)
	desc := fmt.Sprintf("%s offered a single commit by validator %d (weight at that height > 0: %v, in the parameter set: %v) for height %d (tip %d, precommitted %d), tampering %q", n.Name, v.Index, active, inSet, h, tipH, st.MaxHeightPrecommitted, what)
	if pv != nil {
		c.Report("C09", "panic", "singleCommitValidator", desc+fmt.Sprintf(": the validator panicked: %v", pv))
		return
	}
	if !n.Up {
		return
	}
	if pool.Has(commit) {
		simkit.Probe("c06_single_commit_entered_pool")
		if !sigOK || !inSet {
			c.Report("C06", "pool-admission", "invalid-commit-admitted/"+what, desc+fmt.Sprintf(": it is in the pool now (validation result %v)", res))
		}
	} else if sigOK && inSet {
		simkit.Probe("c06_valid_single_commit_not_admitted")
	}
}
