package chainsim

import (
	"bytes"
	"fmt"
	"os"
	"sort"
	"sync"
	"time"

	"github.com/LiskHQ/lisk-engine/pkg/blockchain"
	"github.com/LiskHQ/lisk-engine/pkg/consensus"
	csync "github.com/LiskHQ/lisk-engine/pkg/consensus/sync"
	"github.com/LiskHQ/lisk-engine/pkg/p2p"

	"verif/sim/simkit"
)

// MaxBlocksPerResponse is the protocol's cap on the number of blocks one getBlocksFromId response carries (one round
// of 103 validators in the Lisk protocol).
const MaxBlocksPerResponse = 103

// SyncMonitor checks the sync clauses of C19 on what the nodes do among themselves:
//   - every un-faulted response of an honest node to getLastBlock / getHighestCommonBlock / getBlocksFromId against
//     the responder's own chain read through its height index;
//   - the peer a block sync continues with against the selection rule evaluated on the answers it actually received;
//   - a fast chain switch ends on the block that triggered it or on the tip it started from, and a switch that was
//     rolled back bans the peer that served the blocks.
type SyncMonitor struct {
	W      *World
	S      *Sim
	Report Reporter // called on the simulator's goroutine, at the end of the node step
	cur    map[int]*syncStep
	qmu    sync.Mutex
	queue  [][4]string
}

func (m *SyncMonitor) report(prop, oracle, witness, msg string) {
	m.qmu.Lock()
	m.queue = append(m.queue, [4]string{prop, oracle, witness, msg})
	m.qmu.Unlock()
}

func (m *SyncMonitor) raise() {
	m.qmu.Lock()
	q := m.queue
	m.queue = nil
	m.qmu.Unlock()
	for _, v := range q {
		m.Report(v[0], v[1], v[2], v[3])
	}
}

type rpcRec struct {
	to     p2p.PeerID
	proc   string
	req    []byte
	resp   []byte
	err    error
	fault  int
	honest bool // answered by an honest node's real handler, nothing altered on the way
}

type syncStep struct {
	what        string
	startTip    []byte
	startHeight uint32
	trigger     *blockchain.Block
	triggerFrom p2p.PeerID
	rpcs        []rpcRec
	news        [][]byte // ids of blocks added in this step, in order
	deletes     [][]byte
	order       []string // "n"/"d" sequence
}

func NewSyncMonitor(w *World, report Reporter) *SyncMonitor {
	m := &SyncMonitor{W: w, S: w.S, Report: report, cur: map[int]*syncStep{}}
	s := w.S
	s.Hooks.BeforeNodeStep = func(n *Node, what string) {
		m.cur[n.ID] = &syncStep{what: what, startTip: append([]byte(nil), n.Tip().ID...), startHeight: n.Tip().Height}
	}
	prevGossip := s.Hooks.Gossip
	s.Hooks.Gossip = func(to *Node, from p2p.PeerID, topic string, data []byte) {
		if prevGossip != nil {
			prevGossip(to, from, topic, data)
		}
		if st := m.cur[to.ID]; st != nil && topic == consensus.P2PEventPostBlock {
			if b, err := blockchain.NewBlock(data); err == nil {
				st.trigger, st.triggerFrom = b, from
			}
		}
	}
	s.Hooks.RPC = func(from, to p2p.PeerID, procedure string, req, resp []byte, err error, fault int) {
		n := s.nodeByPeer(from)
		if n == nil {
			return
		}
		st := m.cur[n.ID]
		if st == nil {
			return
		}
		responder := s.nodeByPeer(to)
		rec := rpcRec{to: to, proc: procedure, req: req, resp: resp, err: err, fault: fault, honest: responder != nil && !responder.IsAdversary && fault == rpcOK && s.linked(from, to)}
		st.rpcs = append(st.rpcs, rec)
		if rec.honest && err == nil {
			m.checkHandler(n, responder, rec)
		}
	}
	prevEv := s.Hooks.BlockEvent
	s.Hooks.BlockEvent = func(n *Node, msg interface{}) {
		if prevEv != nil {
			prevEv(n, msg)
		}
		st := m.cur[n.ID]
		if st == nil {
			return
		}
		switch e := msg.(type) {
		case *consensus.EventBlockNewMessage:
			st.news = append(st.news, e.Block.Header.ID)
			st.order = append(st.order, "n")
		case *consensus.EventBlockDeleteMessage:
			st.deletes = append(st.deletes, e.Block.Header.ID)
			st.order = append(st.order, "d")
		}
	}
	prevAfter := s.Hooks.AfterNodeStep
	s.Hooks.AfterNodeStep = func(n *Node, what string) {
		if prevAfter != nil {
			prevAfter(n, what)
		}
		if st := m.cur[n.ID]; st != nil {
			m.afterStep(n, st)
			delete(m.cur, n.ID)
		}
		m.raise()
	}
	return m
}

// onChain reports the height at which the responder's own chain (height index) holds the id, if it does.
func onChain(r *Node, id []byte) (uint32, bool) {
	h, err := r.Chain.DataAccess().GetBlockHeader(id)
	if err != nil {
		return 0, false
	}
	at, err := r.Chain.DataAccess().GetBlockHeaderByHeight(h.Height)
	if err != nil || !bytes.Equal(at.ID, id) {
		return 0, false
	}
	return h.Height, true
}

func (m *SyncMonitor) checkHandler(asker, r *Node, rec rpcRec) {
	switch rec.proc {
	case csync.RPCEndpointGetLastBlock:
		simkit.Probe("c19_handler_getLastBlock_checked")
		b, err := blockchain.NewBlock(rec.resp)
		if err != nil || !bytes.Equal(b.Header.ID, r.Tip().ID) {
			m.report("C19", "handler", "getLastBlock", fmt.Sprintf("%s answered getLastBlock of %s with something else than its tip %d/%s (decode error %v)", r.Name, asker.Name, r.Tip().Height, short(r.Tip().ID), err))
		}
	case csync.RPCEndpointGetHighestCommonBlock:
		req := &csync.GetHighestCommonBlockRequest{}
		if err := req.Decode(rec.req); err != nil || len(req.IDs) == 0 {
			return
		}
		for _, id := range req.IDs {
			if len(id) != 32 {
				return
			}
		}
		simkit.Probe("c19_handler_getHighestCommonBlock_checked")
		var want []byte
		best := uint32(0)
		for _, id := range req.IDs {
			if h, ok := onChain(r, id); ok && (want == nil || h > best) {
				want, best = id, h
			}
		}
		var got []byte
		if len(rec.resp) > 0 {
			resp := &csync.GetHighestCommonBlockResponse{}
			if err := resp.Decode(rec.resp); err != nil {
				m.report("C19", "handler", "getHighestCommonBlock", fmt.Sprintf("%s answered getHighestCommonBlock with bytes that do not decode: %v", r.Name, err))
				return
			}
			got = resp.ID
		}
		if want == nil {
			simkit.Probe("c19_no_common_block")
		}
		if !bytes.Equal(got, want) {
			m.report("C19", "handler", "getHighestCommonBlock", fmt.Sprintf("%s was asked by %s for the highest common block among %d ids; highest one on its chain is %s at height %d, it answered %s", r.Name, asker.Name, len(req.IDs), short(want), best, short(got)))
		}
	case csync.RPCEndpointGetBlocksFromID:
		req := &csync.GetBlocksFromIDRequest{}
		if err := req.Decode(rec.req); err != nil || len(req.ID) != 32 {
			return
		}
		from, ok := onChain(r, req.ID)
		if !ok {
			return
		}
		simkit.Probe("c19_handler_getBlocksFromId_checked")
		resp := &csync.GetBlocksFromIDResponse{}
		if len(rec.resp) > 0 {
			if err := resp.Decode(rec.resp); err != nil {
				m.report("C19", "handler", "getBlocksFromId", fmt.Sprintf("%s answered getBlocksFromId with bytes that do not decode: %v", r.Name, err))
				return
			}
		}
		tip := r.Tip().Height
		want := int(tip - from)
		if want > MaxBlocksPerResponse {
			want = MaxBlocksPerResponse
			simkit.Probe("c19_response_capped")
		}
		if len(resp.Blocks) != want {
			m.report("C19", "handler", "getBlocksFromId", fmt.Sprintf("%s (tip %d) was asked for the blocks after %s at height %d and returned %d blocks, expected %d", r.Name, tip, short(req.ID), from, len(resp.Blocks), want))
			return
		}
		for i, b := range resp.Blocks {
			b.Init()
			at, err := r.Chain.DataAccess().GetBlockHeaderByHeight(from + 1 + uint32(i))
			if err != nil || !bytes.Equal(at.ID, b.Header.ID) {
				m.report("C19", "handler", "getBlocksFromId", fmt.Sprintf("%s: block %d of the response to getBlocksFromId(%s at height %d) is %d/%s, its chain has %s there", r.Name, i, short(req.ID), from, b.Header.Height, short(b.Header.ID), short(at.ID)))
				return
			}
		}
	}
}

type tipInfo struct {
	peer   p2p.PeerID
	height uint32
	mhp    uint32
	id     string
}

// BestTips is the selection rule: largest maxHeightPrevoted, then largest height, then the most common block id
// (every id tied for most common is acceptable).
func bestTips(infos []tipInfo) map[p2p.PeerID]bool {
	out := map[p2p.PeerID]bool{}
	if len(infos) == 0 {
		return out
	}
	var mhp, height uint32
	for _, t := range infos {
		if t.mhp > mhp {
			mhp = t.mhp
		}
	}
	var g1 []tipInfo
	for _, t := range infos {
		if t.mhp == mhp {
			g1 = append(g1, t)
			if t.height > height {
				height = t.height
			}
		}
	}
	freq := map[string]int{}
	var g2 []tipInfo
	for _, t := range g1 {
		if t.height == height {
			g2 = append(g2, t)
			freq[t.id]++
		}
	}
	most := 0
	for _, c := range freq {
		if c > most {
			most = c
		}
	}
	for _, t := range g2 {
		if freq[t.id] == most {
			out[t.peer] = true
		}
	}
	return out
}

func (m *SyncMonitor) afterStep(n *Node, st *syncStep) {
	if len(st.rpcs) == 0 {
		return
	}
	if os.Getenv("VERIF_DEBUG_SYNC") == n.Name {
		fmt.Printf("SYNCDBG %v %s tip %d->%d fin %d: ", m.S.Now(), n.Name, st.startHeight, n.Tip().Height, n.Finalized())
		for _, r := range st.rpcs {
			extra := ""
			if r.proc == csync.RPCEndpointGetHighestCommonBlock {
				req := &csync.GetHighestCommonBlockRequest{}
				if req.Decode(r.req) == nil {
					for _, id := range req.IDs {
						if h, err := n.Chain.DataAccess().GetBlockHeader(id); err == nil {
							extra += fmt.Sprintf("%d,", h.Height)
						}
					}
				}
				extra += fmt.Sprintf(" resp=%d bytes", len(r.resp))
			}
			fmt.Printf("%s->%s(err=%v,fault=%d %s) ", r.proc, r.to, r.err, r.fault, extra)
		}
		fmt.Println()
	}
	first := st.rpcs[0].proc
	switch first {
	case csync.RPCEndpointGetLastBlock:
		m.checkSelection(n, st)
	case csync.RPCEndpointGetHighestCommonBlock:
		m.checkFastSwitch(n, st)
	}
}

// checkSelection: a block sync asks every connected peer for its tip once, then continues with the selected peer
// (its first repeated getLastBlock).
func (m *SyncMonitor) checkSelection(n *Node, st *syncStep) {
	asked := map[p2p.PeerID]bool{}
	var infos []tipInfo
	for _, r := range st.rpcs {
		if r.proc != csync.RPCEndpointGetLastBlock {
			return // the sync gave up before selecting
		}
		if asked[r.to] {
			best := bestTips(infos)
			simkit.Probe("c19_peer_selection_checked")
			if len(infos) > 1 {
				simkit.Probe("c19_peer_selection_among_several")
			}
			ids := map[string]bool{}
			for _, t := range infos {
				ids[t.id] = true
			}
			if len(ids) > 1 {
				simkit.Probe("c19_peer_selection_with_different_tips")
			}
			if !best[r.to] {
				var desc []string
				for _, t := range infos {
					desc = append(desc, fmt.Sprintf("%s:(prevoted %d, height %d, id %s)", t.peer, t.mhp, t.height, short([]byte(t.id))))
				}
				sort.Strings(desc)
				var want []string
				for p := range best {
					want = append(want, string(p))
				}
				sort.Strings(want)
				m.report("C19", "peer-selection", "not-best", fmt.Sprintf("%s synced from %s; the tips it was told: %v; the rule allows %v", n.Name, r.to, desc, want))
			}
			return
		}
		asked[r.to] = true
		if r.err == nil {
			if b, err := blockchain.NewBlock(r.resp); err == nil {
				infos = append(infos, tipInfo{peer: r.to, height: b.Header.Height, mhp: b.Header.MaxHeightPrevoted, id: string(b.Header.ID)})
			}
		}
	}
}

// checkFastSwitch: the step began with getHighestCommonBlock to the sender of the triggering block (fast chain switch).
func (m *SyncMonitor) checkFastSwitch(n *Node, st *syncStep) {
	if st.trigger == nil || !n.Up {
		return
	}
	simkit.Probe("c19_fast_switch_attempted")
	end := n.Tip().ID
	switch {
	case bytes.Equal(end, st.startTip):
		if len(st.deletes) > 0 {
			simkit.Probe("c19_fast_switch_rolled_back")
			if !m.S.Banned(n.Peer, st.triggerFrom) {
				m.report("C19", "fast-sync-restore", "peer-not-banned", fmt.Sprintf("%s switched towards block %d/%s served by %s, rolled back to its own tip %d/%s, and did not ban the peer (events %v; requests %s; log %v)", n.Name, st.trigger.Header.Height, short(st.trigger.Header.ID), st.triggerFrom, st.startHeight, short(st.startTip), st.order, rpcList(st), n.Log.Tail(4)))
			}
		} else {
			simkit.Probe("c19_fast_switch_abandoned_before_deleting")
		}
	case bytes.Equal(end, st.trigger.Header.ID):
		simkit.Probe("c19_fast_switch_completed")
	case n.Finalized() >= n.Tip().Height && len(st.news) > 0:
		// the downloaded blocks applied so far finalized one of themselves: the roll-back legitimately stops there
		simkit.Probe("c19_fast_switch_rollback_stopped_at_newly_finalized_block")
	default:
		m.report("C19", "fast-sync-restore", "neither-old-nor-new", fmt.Sprintf("%s started a fast chain switch on tip %d/%s towards block %d/%s from %s and ended on %d/%s, which is neither (deleted %d, added %d blocks in the step: %v)",
			n.Name, st.startHeight, short(st.startTip), st.trigger.Header.Height, short(st.trigger.Header.ID), st.triggerFrom, n.Tip().Height, short(end), len(st.deletes), len(st.news), st.order))
	}
}

// ---- phantom peers: connected peers that only advertise a tip ---------------------------------------------------------

// PhantomPeer answers getLastBlock with a fabricated block and nothing else. A node that has to choose a peer for a
// block sync sees its tip among the others.
type PhantomPeer struct {
	Peer p2p.PeerID
	Tip  *blockchain.Block
}

func (p *PhantomPeer) ID() p2p.PeerID                                          { return p.Peer }
func (p *PhantomPeer) HandleGossip(from p2p.PeerID, topic string, data []byte) {}
func (p *PhantomPeer) HandleRPC(from p2p.PeerID, procedure string, data []byte) ([]byte, error) {
	if procedure == csync.RPCEndpointGetLastBlock {
		return p.Tip.Encode(), nil
	}
	return nil, fmt.Errorf("phantom peer: no such data")
}

// FabricateTip builds a well-formed block with the given height and maxHeightPrevoted; equal arguments give equal ids.
func FabricateTip(height, mhp uint32, variant byte, timestamp uint32) *blockchain.Block {
	fill := func(n int) []byte { return bytes.Repeat([]byte{variant + 1}, n) }
	h := &blockchain.BlockHeader{Version: 2, Timestamp: timestamp, Height: height, PreviousBlockID: fill(32), GeneratorAddress: fill(20), TransactionRoot: fill(32), AssetRoot: fill(32),
		EventRoot: fill(32), StateRoot: fill(32), MaxHeightPrevoted: mhp, MaxHeightGenerated: 0, ValidatorsHash: fill(32),
		AggregateCommit: &blockchain.AggregateCommit{Height: 0, AggregationBits: []byte{}, CertificateSignature: []byte{}}, Signature: fill(64)}
	b := &blockchain.Block{Header: h, Transactions: []*blockchain.Transaction{}, Assets: blockchain.BlockAssets{}}
	b.Init()
	return b
}

// AddPhantoms connects k phantom peers whose advertised tips are redrawn every few seconds around the tips of the
// honest nodes, so that ties on maxHeightPrevoted, on height and on block id all occur.
func (w *World) AddPhantoms(k int) []*PhantomPeer {
	var out []*PhantomPeer
	for i := 0; i < k; i++ {
		p := &PhantomPeer{Peer: p2p.PeerID(fmt.Sprintf("peer-phantom%d", i)), Tip: FabricateTip(1, 0, 0, w.S.GenesisUnix()+1)}
		w.S.AddPeer(p)
		out = append(out, p)
	}
	var redraw func()
	redraw = func() {
		if len(w.S.Extra) == 0 {
			return
		}
		for _, p := range out {
			n := w.S.Nodes[simkit.Int(w.T, "phantomlike", 0, len(w.S.Nodes)-1)]
			if !n.Up {
				continue
			}
			tip := n.Tip()
			h := int(tip.Height) + simkit.Int(w.T, "phantomdh", -1, 1)
			pv := int(tip.MaxHeightPrevoted) + simkit.Int(w.T, "phantomdp", -1, 1)
			if h < 1 {
				h = 1
			}
			if pv < 0 {
				pv = 0
			}
			p.Tip = FabricateTip(uint32(h), uint32(pv), byte(simkit.Int(w.T, "phantomvariant", 0, 1)), tip.Timestamp)
		}
		w.S.At(3*time.Second, "phantom tips", redraw)
	}
	w.S.At(time.Second, "phantom tips", redraw)
	return out
}

func rpcList(st *syncStep) string {
	out := ""
	for _, r := range st.rpcs {
		out += fmt.Sprintf("%s->%s(err=%v,fault=%d) ", r.proc, r.to, r.err, r.fault)
	}
	return out
}

// StartHandlerProbes adds a requester that is not one of the nodes: every `every` of simulated time it asks one node
// for the highest common block among ids drawn from that node's own chain (any heights, any order, unknown ids mixed
// in) or for the blocks after a drawn id, and judges the answer by the same rule as the answers nodes give each other.
// The nodes' own requests always list ids from the tip downwards; other implementations need not.
func (m *SyncMonitor) StartHandlerProbes(every time.Duration) {
	var tick func()
	tick = func() {
		m.handlerProbe()
		m.S.At(every, "sync handler probe", tick)
	}
	m.S.At(every, "sync handler probe", tick)
}

func (m *SyncMonitor) handlerProbe() {
	t := m.W.T
	var ups []*Node
	for _, n := range m.S.Nodes {
		if n.Up && !n.IsAdversary {
			ups = append(ups, n)
		}
	}
	if len(ups) == 0 {
		return
	}
	r := ups[simkit.Int(t, "hpnode", 0, len(ups)-1)]
	tip := int(r.Tip().Height)
	asker := &Node{Name: "probe"}
	if simkit.Bool(t, "hpkind") {
		k := simkit.Int(t, "hpids", 1, 8)
		req := &csync.GetHighestCommonBlockRequest{}
		for i := 0; i < k; i++ {
			if simkit.Chance(t, "hpunknown", 1, 5) {
				req.IDs = append(req.IDs, bytes.Repeat([]byte{byte(0xe0 + i)}, 32))
				continue
			}
			if h, err := r.Chain.DataAccess().GetBlockHeaderByHeight(uint32(simkit.Int(t, "hpheight", 0, tip))); err == nil {
				req.IDs = append(req.IDs, h.ID)
			}
		}
		if len(req.IDs) == 0 {
			return
		}
		data := req.Encode()
		var resp []byte
		var err error
		ran := m.S.Step(r, "sync handler probe getHighestCommonBlock", func() {
			resp, err, _ = r.Conn.VerifHandleRPC("peer-probe", csync.RPCEndpointGetHighestCommonBlock, data)
		})
		simkit.Probe("c19_handler_probe_getHighestCommonBlock")
		if ran && err == nil && r.Up {
			m.checkHandler(asker, r, rpcRec{proc: csync.RPCEndpointGetHighestCommonBlock, req: data, resp: resp})
			m.raise()
		}
		return
	}
	var id []byte
	if simkit.Chance(t, "hpunknown", 1, 6) {
		id = bytes.Repeat([]byte{0xe7}, 32)
	} else if h, err := r.Chain.DataAccess().GetBlockHeaderByHeight(uint32(simkit.Int(t, "hpheight", 0, tip))); err == nil {
		id = h.ID
	} else {
		return
	}
	data := (&csync.GetBlocksFromIDRequest{ID: id}).Encode()
	var resp []byte
	var err error
	ran := m.S.Step(r, "sync handler probe getBlocksFromId", func() {
		resp, err, _ = r.Conn.VerifHandleRPC("peer-probe", csync.RPCEndpointGetBlocksFromID, data)
	})
	simkit.Probe("c19_handler_probe_getBlocksFromId")
	if ran && err == nil && r.Up {
		m.checkHandler(asker, r, rpcRec{proc: csync.RPCEndpointGetBlocksFromID, req: data, resp: resp})
		m.raise()
	}
}
