package chainsim

import (
	"bytes"
	"context"
	"fmt"

	"github.com/LiskHQ/lisk-engine/pkg/blockchain"
	"github.com/LiskHQ/lisk-engine/pkg/codec"
	"github.com/LiskHQ/lisk-engine/pkg/consensus"
	"github.com/LiskHQ/lisk-engine/pkg/db"
	"github.com/LiskHQ/lisk-engine/pkg/p2p"
	"github.com/LiskHQ/lisk-engine/pkg/trie/rmt"

	"verif/sim/refmodel"
	"verif/sim/simkit"
)

// MutantInjector is the "tampering peer" fault for C03. Whenever a block signed by an honest validator is about to be
// delivered to a node whose tip is its parent (a valid successor of that node's state), the injector may first offer
// the node single-rule mutants of it - one altered field, re-signed with the right key so that nothing but the rule
// under test can reject it - through the same gossip entry (validator, event handler, consensus loop). After each
// mutant the node's tip, its whole blockchain database, the events it published and the requests it sent are compared
// with what they were before.
type MutantInjector struct {
	W       *World
	S       *Sim
	M       *Monitor
	Report  Reporter
	Rate    [2]int // sessions for Rate[0] out of Rate[1] eligible deliveries
	busy    bool
	rpcs    int
	evs     int
	Offered map[string]int
}

type mutant struct {
	name  string
	block *blockchain.Block
}

func NewMutantInjector(w *World, m *Monitor, report Reporter) *MutantInjector {
	mi := &MutantInjector{W: w, S: w.S, M: m, Report: report, Rate: [2]int{1, 6}, Offered: map[string]int{}}
	s := w.S
	s.Hooks.BeforeGossip = func(to *Node, from p2p.PeerID, topic string, data []byte) {
		if topic == consensus.P2PEventPostBlock && !mi.busy {
			mi.session(to, from, data)
		}
	}
	prevRPC := s.Hooks.RPC
	s.Hooks.RPC = func(from, to p2p.PeerID, procedure string, req, resp []byte, err error, fault int) {
		if prevRPC != nil {
			prevRPC(from, to, procedure, req, resp, err, fault)
		}
		if mi.busy {
			mi.rpcs++
		}
	}
	prevEv := s.Hooks.BlockEvent
	s.Hooks.BlockEvent = func(n *Node, msg interface{}) {
		if prevEv != nil {
			prevEv(n, msg)
		}
		if mi.busy {
			switch msg.(type) {
			case *consensus.EventBlockNewMessage, *consensus.EventBlockDeleteMessage, *consensus.EventBlockFinalizeMessage, *consensus.EventChangeValidator:
				mi.evs++ // (the "block received from the network" and "fork detected" notifications say nothing about the chain)
			}
		}
	}
	return mi
}

func (mi *MutantInjector) validatorByAddress(addr []byte) *Validator {
	for _, v := range mi.W.Vals {
		if bytes.Equal(v.Address, addr) {
			return v
		}
	}
	return nil
}

func dumpMap(d *db.DB) map[string][]byte {
	out := map[string][]byte{}
	for _, kv := range d.VerifDump() {
		out[string(kv.K)] = kv.V
	}
	return out
}

func dumpDelta(a, b map[string][]byte) string {
	n := 0
	var first []string
	for k, v := range a {
		w, ok := b[k]
		if !ok || !bytes.Equal(v, w) {
			n++
			if len(first) < 4 {
				first = append(first, keyName([]byte(k)))
			}
		}
	}
	for k := range b {
		if _, ok := a[k]; !ok {
			n++
			if len(first) < 4 {
				first = append(first, "new:"+keyName([]byte(k)))
			}
		}
	}
	if n == 0 {
		return ""
	}
	return fmt.Sprintf("%d keys changed %v", n, first)
}

func (mi *MutantInjector) session(n *Node, from p2p.PeerID, data []byte) {
	t := mi.W.T
	b, err := blockchain.NewBlock(data)
	if err != nil || !n.Up {
		return
	}
	tip := n.Tip()
	if !bytes.Equal(b.Header.PreviousBlockID, tip.ID) || b.Header.Height != tip.Height+1 {
		return
	}
	gen := mi.validatorByAddress(b.Header.GeneratorAddress)
	if gen == nil || gen.Byzantine || !b.Header.VerifySignature(mi.W.P.ChainID, gen.GenPub) {
		return // only blocks an honest generator signed are known to be valid successors
	}
	if !simkit.Chance(t, "mutantsession", mi.Rate[0], mi.Rate[1]) {
		return
	}
	simkit.Probe("c03_mutant_session")
	muts := mi.mutantsOf(n, b, gen)
	// a drawn subset, in drawn order
	k := simkit.Int(t, "nmutants", 1, 6)
	mi.busy = true
	defer func() { mi.busy = false }()
	before := dumpMap(n.BlockchainDB)
	appBefore := dumpMap(n.StateDB)
	for i := 0; i < k && len(muts) > 0; i++ {
		j := simkit.Int(t, "mutant", 0, len(muts)-1)
		m := muts[j]
		muts = append(muts[:j], muts[j+1:]...)
		mi.Offered[m.name]++
		simkit.Probe("c03_mutant_" + m.name)
		mi.rpcs, mi.evs = 0, 0
		payload := m.block.Encode()
		mi.S.Step(n, "mutant "+m.name, func() {
			if n.Conn.VerifValidate(context.Background(), consensus.P2PEventPostBlock, payload) == p2p.ValidationAccept {
				simkit.Probe("c03_mutant_passed_gossip_validator")
				n.Conn.VerifHandleEvent(from, consensus.P2PEventPostBlock, payload)
			}
		})
		if !n.Up {
			return // crashed (reported by the panic reporter)
		}
		what := fmt.Sprintf("%s offered block %d/%s by %s altered in %q (original %s, a valid successor of its tip %d/%s)", n.Name, m.block.Header.Height, short(m.block.Header.ID), from, m.name, short(b.Header.ID), tip.Height, short(tip.ID))
		if bytes.Equal(n.Tip().ID, m.block.Header.ID) {
			mi.Report("C03", "mutant-accepted", m.name, what+": the node appended it")
			return
		}
		if mi.rpcs > 0 {
			// the mutant looked like a block of another chain and the node asked its peers: what it then learns from
			// honest peers may legitimately change its chain. No verdict on this one; start over from the new state.
			simkit.Probe("c03_mutant_triggered_sync_requests")
			if !bytes.Equal(n.Tip().ID, tip.ID) {
				return
			}
			before = dumpMap(n.BlockchainDB)
			appBefore = dumpMap(n.StateDB)
			continue
		}
		if bytes.Equal(n.Tip().ID, m.block.Header.ID) {
			mi.Report("C03", "mutant-accepted", m.name, what+": the node appended it")
			return
		}
		if !bytes.Equal(n.Tip().ID, tip.ID) {
			mi.Report("C03", "rejected-block-changed-state", m.name, what+fmt.Sprintf(": the tip moved to %d/%s", n.Tip().Height, short(n.Tip().ID)))
			return
		}
		if d := dumpDelta(before, dumpMap(n.BlockchainDB)); d != "" {
			mi.Report("C03", "rejected-block-changed-state", m.name, what+": the blockchain database changed: "+d)
			return
		}
		if d := dumpDelta(appBefore, dumpMap(n.StateDB)); d != "" {
			mi.Report("C03", "rejected-block-changed-state", m.name+"/application", what+": the application state database changed: "+d)
			return
		}
		if mi.evs > 0 {
			mi.Report("C03", "rejected-block-changed-state", m.name+"/events", what+fmt.Sprintf(": the executer published %d block events", mi.evs))
			return
		}
		simkit.Probe("c03_mutant_rejected_without_trace")
	}
}

func flip(b []byte) []byte {
	c := append([]byte(nil), b...)
	if len(c) > 0 {
		c[len(c)/2] ^= 0x01
	}
	return c
}

// mutantsOf builds the single-rule mutants of b that are certainly invalid for node n.
func (mi *MutantInjector) mutantsOf(n *Node, b *blockchain.Block, gen *Validator) []mutant {
	t := mi.W.T
	chainID := mi.W.P.ChainID
	var out []mutant
	add := func(name string, signer *Validator, f func(c *blockchain.Block)) {
		c := cloneBlock(b)
		f(c)
		if signer != nil {
			c.Header.Sign(chainID, signer.GenPriv)
		} else {
			c.Header.Init()
		}
		out = append(out, mutant{name, c})
	}
	h := b.Header
	tip := n.Tip()
	add("version", gen, func(c *blockchain.Block) { c.Header.Version = []uint32{0, 1, 3}[simkit.Int(t, "mversion", 0, 2)] })
	add("height+1", gen, func(c *blockchain.Block) { c.Header.Height = h.Height + 1 })
	add("height-1", gen, func(c *blockchain.Block) { c.Header.Height = h.Height - 1 })
	add("previousBlockID", gen, func(c *blockchain.Block) { c.Header.PreviousBlockID = flip(h.PreviousBlockID) })
	// slot not later than the tip's
	add("timestamp-not-after-tip", gen, func(c *blockchain.Block) { c.Header.Timestamp = tip.Timestamp - uint32(simkit.Int(t, "mtsback", 0, 1)) })
	// a second block in the tip's own slot: later timestamp, same slot, by the validator that owns that slot (the only
	// rule it breaks is "strictly later slot than the tip")
	if tg := mi.validatorByAddress(tip.GeneratorAddress); tg != nil && tip.Height > 0 {
		slotEnd := n.Exec.GetSlotTime(n.Exec.GetSlotNumber(tip.Timestamp) + 1)
		if tip.Timestamp+1 < slotEnd {
			ts := tip.Timestamp + 1 + uint32(simkit.Int(t, "msameslot", 0, int(slotEnd-tip.Timestamp-2)))
			add("timestamp-same-slot-as-tip", tg, func(c *blockchain.Block) {
				c.Header.Timestamp = ts
				c.Header.GeneratorAddress = tg.Address
				c.Header.MaxHeightGenerated = tip.Height
			})
		}
	}
	// a slot in the future (at least two slots ahead of the node's clock even with skew)
	add("timestamp-future", gen, func(c *blockchain.Block) {
		c.Header.Timestamp = uint32(simrtNowUnix()) + uint32(simkit.Int(t, "mtsfwd", 3, 40))*mi.W.P.BlockTime
	})
	// a validator that does not own the slot, signing with its own key
	var others []*Validator
	for _, v := range mi.W.Vals {
		if !bytes.Equal(v.Address, h.GeneratorAddress) {
			others = append(others, v)
		}
	}
	if len(others) > 0 {
		o := others[simkit.Int(t, "mother", 0, len(others)-1)]
		add("generator-not-slot-owner", o, func(c *blockchain.Block) { c.Header.GeneratorAddress = o.Address })
		add("signed-by-other-key", o, func(c *blockchain.Block) {})
	}
	add("signature-bit", nil, func(c *blockchain.Block) { c.Header.Signature = flip(h.Signature) })
	otherChain := append([]byte(nil), chainID...)
	otherChain[len(otherChain)-1] ^= 1
	add("signed-for-other-chain", nil, func(c *blockchain.Block) { c.Header.Sign(otherChain, gen.GenPriv) })
	add("transactionRoot", gen, func(c *blockchain.Block) { c.Header.TransactionRoot = flip(h.TransactionRoot) })
	add("assetRoot", gen, func(c *blockchain.Block) { c.Header.AssetRoot = flip(h.AssetRoot) })
	add("eventRoot", gen, func(c *blockchain.Block) { c.Header.EventRoot = flip(h.EventRoot) })
	add("stateRoot", gen, func(c *blockchain.Block) { c.Header.StateRoot = flip(h.StateRoot) })
	add("validatorsHash", gen, func(c *blockchain.Block) { c.Header.ValidatorsHash = flip(h.ValidatorsHash) })
	add("maxHeightPrevoted+1", gen, func(c *blockchain.Block) { c.Header.MaxHeightPrevoted = h.MaxHeightPrevoted + 1 })
	if h.MaxHeightPrevoted > 0 {
		add("maxHeightPrevoted-1", gen, func(c *blockchain.Block) { c.Header.MaxHeightPrevoted = h.MaxHeightPrevoted - 1 })
	}
	// one header field altered while the original signature stays: the signature covers every header field, so a
	// relaying peer without the generator's key must not be able to change any of them (values chosen so that no other
	// rule objects where that is possible)
	keep := func(name string, f func(c *blockchain.Block)) { add("signature-kept/"+name, nil, f) }
	keep("timestamp+1-same-slot", func(c *blockchain.Block) {
		if n.Exec.GetSlotNumber(h.Timestamp+1) == n.Exec.GetSlotNumber(h.Timestamp) {
			c.Header.Timestamp = h.Timestamp + 1
		} else {
			c.Header.Timestamp = h.Timestamp - 1
		}
	})
	keep("maxHeightGenerated", func(c *blockchain.Block) {
		// another value below the height that contradicts nothing the generator did on this chain
		g := h.MaxHeightGenerated + 1
		if g >= h.Height {
			g = h.MaxHeightGenerated - 1
		}
		if tb := mi.M.Tree.ByID[string(tip.ID)]; tb != nil {
			if last, ok := tb.BFT.LastHeaderOf(string(h.GeneratorAddress)); ok {
				for _, cand := range []uint32{last.Height, last.Height + 1, h.Height - 1} {
					ch := refmodel.BFTHeader{Height: h.Height, Generator: string(h.GeneratorAddress), MaxHeightGenerated: cand, MaxHeightPrevoted: h.MaxHeightPrevoted}
					if cand != h.MaxHeightGenerated && cand < h.Height && !refmodel.Contradicting(last, ch) {
						g = cand
						break
					}
				}
			}
		}
		c.Header.MaxHeightGenerated = g
	})
	keep("impliesMaxPrevotes", func(c *blockchain.Block) { c.Header.ImpliesMaxPrevotes = !h.ImpliesMaxPrevotes })
	keep("eventRoot", func(c *blockchain.Block) { c.Header.EventRoot = flip(h.EventRoot) })
	keep("stateRoot", func(c *blockchain.Block) { c.Header.StateRoot = flip(h.StateRoot) })
	keep("validatorsHash", func(c *blockchain.Block) { c.Header.ValidatorsHash = flip(h.ValidatorsHash) })
	keep("maxHeightPrevoted", func(c *blockchain.Block) { c.Header.MaxHeightPrevoted = h.MaxHeightPrevoted + 1 })
	keep("aggregateCommit", func(c *blockchain.Block) { c.Header.AggregateCommit.Height = h.AggregateCommit.Height + 1 })
	// maxHeightGenerated chosen so that the header contradicts the generator's most recent header on this chain
	if tb := mi.M.Tree.ByID[string(tip.ID)]; tb != nil {
		if last, ok := tb.BFT.LastHeaderOf(string(h.GeneratorAddress)); ok {
			// (any value that hides the last header: zero, just below it, what the last header itself claimed - which
			// may still cover older headers of the same generator)
			var cands []uint32
			for _, g := range []uint32{0, last.Height - 1, last.MaxHeightGenerated} {
				cand := refmodel.BFTHeader{Height: h.Height, Generator: string(h.GeneratorAddress), MaxHeightGenerated: g, MaxHeightPrevoted: h.MaxHeightPrevoted}
				if g != h.MaxHeightGenerated && g < h.Height && refmodel.Contradicting(last, cand) {
					cands = append(cands, g)
				}
			}
			if len(cands) > 0 {
				g := cands[simkit.Int(t, "mmhgcontra", 0, len(cands)-1)]
				add("maxHeightGenerated-contradicting", gen, func(c *blockchain.Block) { c.Header.MaxHeightGenerated = g })
			}
		}
	}
	// aggregate commit
	ac := h.AggregateCommit
	if len(ac.AggregationBits) == 0 && len(ac.CertificateSignature) == 0 {
		add("aggregateCommit-height", gen, func(c *blockchain.Block) { c.Header.AggregateCommit.Height = ac.Height + 1 })
		if ac.Height > 0 {
			// an empty commit names the certified height itself; one that names an earlier height is stale
			back := uint32(1 + simkit.Int(t, "macback", 0, int(ac.Height)-1))
			add("aggregateCommit-height-below-certified", gen, func(c *blockchain.Block) { c.Header.AggregateCommit.Height = ac.Height - back })
		}
		add("aggregateCommit-forged", gen, func(c *blockchain.Block) {
			c.Header.AggregateCommit.Height = ac.Height + 1
			c.Header.AggregateCommit.AggregationBits = []byte{0xff}
			c.Header.AggregateCommit.CertificateSignature = bytes.Repeat([]byte{0xab}, 96)
		})
		if len(gen.BLSPriv) > 0 {
			add("aggregateCommit-only-bits", gen, func(c *blockchain.Block) { c.Header.AggregateCommit.AggregationBits = []byte{0x01} })
		}
	} else {
		simkit.Probe("c03_original_carries_certificate")
		add("aggregateCommit-signature-bit", gen, func(c *blockchain.Block) {
			c.Header.AggregateCommit.CertificateSignature = flip(ac.CertificateSignature)
		})
		add("aggregateCommit-height", gen, func(c *blockchain.Block) { c.Header.AggregateCommit.Height = ac.Height - 1 })
		add("aggregateCommit-bits", gen, func(c *blockchain.Block) { c.Header.AggregateCommit.AggregationBits = flip(ac.AggregationBits) })
		add("aggregateCommit-dropped", gen, func(c *blockchain.Block) {
			c.Header.AggregateCommit.AggregationBits = []byte{}
			c.Header.AggregateCommit.CertificateSignature = []byte{}
		})
	}
	// payload: a transaction the root does not cover; a transaction removed under the same root
	junk := &blockchain.Transaction{Module: "sim", Command: "prog", Nonce: 0, Fee: 1, SenderPublicKey: bytes.Repeat([]byte{7}, 32), Params: []byte{}, Signatures: []codec.Hex{bytes.Repeat([]byte{1}, 64)}}
	junk.Init()
	add("payload-extra-transaction-same-root", nil, func(c *blockchain.Block) { c.Transactions = append(c.Transactions, junk) })
	if len(b.Transactions) > 0 {
		add("payload-transaction-removed-same-root", nil, func(c *blockchain.Block) { c.Transactions = c.Transactions[1:] })
	}
	// payload with a matching root whose transaction is not statically valid (no signature at all / short public key)
	bad := &blockchain.Transaction{Module: "sim", Command: "prog", Nonce: 0, Fee: 1, SenderPublicKey: bytes.Repeat([]byte{7}, 32), Params: []byte{}, Signatures: []codec.Hex{}}
	bad.Init()
	add("payload-statically-invalid-transaction", gen, func(c *blockchain.Block) {
		c.Transactions = append(c.Transactions, bad)
		ids := make([][]byte, len(c.Transactions))
		for i, tx := range c.Transactions {
			ids[i] = tx.ID
		}
		c.Header.TransactionRoot = rmt.CalculateRoot(ids)
	})
	// assets the root does not cover
	add("assets-altered-same-root", nil, func(c *blockchain.Block) {
		c.Assets = append(blockchain.BlockAssets{}, c.Assets...)
		c.Assets = append(c.Assets, &blockchain.BlockAsset{Module: "zzz", Data: []byte{1}})
	})
	return out
}
