package chainsim

import (
	"container/heap"
	"context"
	"crypto/sha256"
	"errors"
	"fmt"
	"sort"
	"strings"
	"sync"
	"time"

	"pgregory.net/rapid"

	"github.com/LiskHQ/lisk-engine/pkg/blockchain"
	"github.com/LiskHQ/lisk-engine/pkg/consensus"
	csync "github.com/LiskHQ/lisk-engine/pkg/consensus/sync"
	"github.com/LiskHQ/lisk-engine/pkg/p2p"

	"verif/sim/simcontext"
	"verif/sim/simfs"
	"verif/sim/simkit"
	"verif/sim/simrand"
	"verif/sim/simrt"
)

type simEvent struct {
	at   time.Duration
	seq  uint64
	desc string
	fn   func()
}

type eventHeap []*simEvent

func (h eventHeap) Len() int { return len(h) }
func (h eventHeap) Less(i, j int) bool {
	if h[i].at != h[j].at {
		return h[i].at < h[j].at
	}
	return h[i].seq < h[j].seq
}
func (h eventHeap) Swap(i, j int)       { h[i], h[j] = h[j], h[i] }
func (h *eventHeap) Push(x interface{}) { *h = append(*h, x.(*simEvent)) }
func (h *eventHeap) Pop() interface{} {
	old := *h
	n := len(old)
	e := old[n-1]
	*h = old[:n-1]
	return e
}

// NetConfig are the per-run network fault parameters (drawn by the harness; 0 disables a kind).
type NetConfig struct {
	MinLatency, MaxLatency time.Duration
	DropPct, DupPct        int
	RPCFailPct             int // chance that one sync RPC fails (timeout / connection error)
	RPCCorruptPct          int // chance that a sync RPC response is truncated or bit-flipped
}

type pub struct {
	from  p2p.PeerID
	topic string
	data  []byte
}

// Hooks are the observation points the oracles attach to.
type Hooks struct {
	// BlockEvent is called for every message the executer of node n published (EventBlockNewMessage, ...).
	BlockEvent func(n *Node, msg interface{})
	// AfterNodeStep is called after every call into node n returned and its effects were collected.
	AfterNodeStep func(n *Node, what string)
	// Gossip is called for every gossip payload delivered to a node before its validator runs.
	Gossip func(to *Node, from p2p.PeerID, topic string, data []byte)
	// BeforeForge is called right before a node's generator gets its turn (it may or may not produce a block).
	BeforeForge func(n *Node)
	// Forged is called when a node's generator handed a block to its executer.
	Forged func(n *Node, b *blockchain.Block)
	// RPC is called for every sync RPC (after the response was determined; fault is the injected fault code, 0 = none).
	RPC func(from, to p2p.PeerID, procedure string, req, resp []byte, err error, fault int)
	// BeforeGossip is called when a gossip payload is about to be handed to node `to` (outside any node step: the
	// hook may run node steps of its own, e.g. to offer the node something else first).
	BeforeGossip func(to *Node, from p2p.PeerID, topic string, data []byte)
	// BeforeProcess / Processed bracket every block the consensus loop of node n takes from its queue: the tip before,
	// the error process() returned and the number of sync requests it sent.
	BeforeProcess func(n *Node)
	Processed     func(n *Node, b *blockchain.Block, from p2p.PeerID, tipBefore *blockchain.BlockHeader, err error, rpcs int)
	// NodeDied is called when node n was killed in the middle of a step (observers drop what they kept for that step).
	NodeDied func(n *Node, what string)
	// BeforeNodeStep is called before every call into node n.
	BeforeNodeStep func(n *Node, what string)
}

// Peer is anything reachable on the simulated network besides honest nodes (the adversary).
type Peer interface {
	ID() p2p.PeerID
	HandleGossip(from p2p.PeerID, topic string, data []byte)
	HandleRPC(from p2p.PeerID, procedure string, data []byte) ([]byte, error)
}

type Sim struct {
	T            *rapid.T
	P            *ChainParams
	Nodes        []*Node
	Extra        []Peer
	Detached     []*Node // nodes outside the network (crash victim and twin)
	Vals         []*Validator
	Net          NetConfig
	Hooks        Hooks
	q            eventHeap
	seq          uint64
	group        map[p2p.PeerID]int
	seen         map[p2p.PeerID]map[[32]byte]bool
	banned       map[p2p.PeerID]map[p2p.PeerID]bool
	penalty      map[p2p.PeerID]map[p2p.PeerID]int
	omu          sync.Mutex
	outbox       []pub
	cur          *Node
	rpcMu        sync.Mutex
	rpcPlan      []int // pre-drawn fault codes for the RPCs of the current node step
	curCrashable bool  // the current step runs on a goroutine that may be killed
	rpcLie       []int // pre-drawn lies of a Byzantine responder (-1: honest answer; d: a block d below the requester's finalized height)
	rpcPos       []int // pre-drawn positions (per mille of the payload) for truncation / bit flip
	rpcNext      int
	rpcCount     int
	livelock     *Livelock
	// NodePanic is called when a step of node n panicked (the process would have died) or spun without end.
	NodePanic        func(n *Node, what string, value interface{})
	Steps            int
	Stats            map[string]int
	Trace            []string
	TraceOn          bool
	genesisTime      uint32
	Adv              *Adversary
	OnNodeDied       func(n *Node)   // schedules the restart
	TopicBlackout    map[string]bool // gossip topics on which nothing gets through at the moment (fault)
	OnAdversaryBlock func(b *blockchain.Block)
}

func simrtNowUnix() int64 { return simrt.C.NowTrue().Unix() }

// NodeUnixNow is what node n's (possibly skewed) clock reads.
func NodeUnixNow(n *Node) int64 { return simrtNowUnixFor(n) }

// simrtNowUnixFor is what node n's (possibly skewed) clock reads.
func simrtNowUnixFor(n *Node) int64 { return simrt.C.NowTrue().Add(n.Skew).Unix() }

func NewSim(t *rapid.T, p *ChainParams, vals []*Validator) *Sim {
	s := &Sim{T: t, P: p, Vals: vals, group: map[p2p.PeerID]int{}, seen: map[p2p.PeerID]map[[32]byte]bool{}, banned: map[p2p.PeerID]map[p2p.PeerID]bool{},
		penalty: map[p2p.PeerID]map[p2p.PeerID]int{}, Stats: map[string]int{}, TopicBlackout: map[string]bool{}}
	simrt.ResetClock()
	simrt.C.SetSkew(func() time.Duration {
		if s.cur != nil {
			return s.cur.Skew
		}
		return 0
	})
	simrand.SetSource(nil)
	s.genesisTime = p.Genesis.Header.Timestamp
	return s
}

func (s *Sim) Now() time.Duration { return simrt.C.Elapsed() }

func (s *Sim) trace(format string, args ...interface{}) {
	if s.TraceOn {
		s.Trace = append(s.Trace, fmt.Sprintf("%v ", s.Now())+fmt.Sprintf(format, args...))
	}
}

func (s *Sim) At(d time.Duration, desc string, fn func()) {
	s.seq++
	heap.Push(&s.q, &simEvent{at: s.Now() + d, seq: s.seq, desc: desc, fn: fn})
}

// AddNode creates a node attached to this network (not started).
func (s *Sim) AddNode() *Node {
	n := NewNode(len(s.Nodes), s.P, s)
	s.Nodes = append(s.Nodes, n)
	s.seen[n.Peer] = map[[32]byte]bool{}
	s.banned[n.Peer] = map[p2p.PeerID]bool{}
	s.penalty[n.Peer] = map[p2p.PeerID]int{}
	return n
}

func (s *Sim) AddPeer(p Peer) {
	s.Extra = append(s.Extra, p)
	s.seen[p.ID()] = map[[32]byte]bool{}
	s.banned[p.ID()] = map[p2p.PeerID]bool{}
	s.penalty[p.ID()] = map[p2p.PeerID]int{}
}

func (s *Sim) nodeByPeer(p p2p.PeerID) *Node {
	for _, n := range s.Nodes {
		if n.Peer == p {
			return n
		}
	}
	return nil
}

func (s *Sim) extraByPeer(p p2p.PeerID) Peer {
	for _, e := range s.Extra {
		if e.ID() == p {
			return e
		}
	}
	return nil
}

func (s *Sim) allPeers() []p2p.PeerID {
	var out []p2p.PeerID
	for _, n := range s.Nodes {
		out = append(out, n.Peer)
	}
	for _, e := range s.Extra {
		out = append(out, e.ID())
	}
	return out
}

// Partition assigns peers to groups; only peers of the same group can talk.
func (s *Sim) Partition(groups map[p2p.PeerID]int) { s.group = groups }
func (s *Sim) Heal()                               { s.group = map[p2p.PeerID]int{} }

// ClearBans lifts every ban and forgets the penalty scores (ban expiry).
func (s *Sim) ClearBans() {
	for _, p := range s.allPeers() {
		s.banned[p] = map[p2p.PeerID]bool{}
		s.penalty[p] = map[p2p.PeerID]int{}
	}
}

// RemoveExtraPeers disconnects everything that is not a node.
func (s *Sim) RemoveExtraPeers() { s.Extra = nil }

func (s *Sim) up(p p2p.PeerID) bool {
	if n := s.nodeByPeer(p); n != nil {
		return n.Up
	}
	return s.extraByPeer(p) != nil
}

func (s *Sim) linked(a, b p2p.PeerID) bool {
	if a == b || !s.up(a) || !s.up(b) {
		return false
	}
	if s.group[a] != s.group[b] {
		return false
	}
	if s.banned[a][b] || s.banned[b][a] {
		return false
	}
	return true
}

// ---- p2p.VerifTransport ---------------------------------------------------------------------------------------

func (s *Sim) Publish(from p2p.PeerID, topic string, data []byte) error {
	if s.Adv != nil && s.Adv.IsHead(from) && topic == "postBlock" {
		return nil // the adversary decides itself who receives its blocks (and forwards nothing)
	}
	s.omu.Lock()
	s.outbox = append(s.outbox, pub{from, topic, append([]byte(nil), data...)})
	s.omu.Unlock()
	return nil
}

func (s *Sim) Peers(of p2p.PeerID) p2p.PeerIDs {
	var out p2p.PeerIDs
	for _, p := range s.allPeers() {
		if s.linked(of, p) {
			out = append(out, p)
		}
	}
	sort.Slice(out, func(i, j int) bool { return out[i] < out[j] })
	return out
}

func (s *Sim) Ban(by, whom p2p.PeerID) {
	s.omu.Lock()
	defer s.omu.Unlock()
	if s.banned[by] == nil {
		s.banned[by] = map[p2p.PeerID]bool{}
	}
	s.banned[by][whom] = true
	s.Stats["ban"]++
}

func (s *Sim) Penalty(by, whom p2p.PeerID, score int) {
	s.omu.Lock()
	s.penalty[by][whom] += score
	over := s.penalty[by][whom] >= 100
	s.omu.Unlock()
	if over {
		s.Ban(by, whom)
	}
}

func (s *Sim) Banned(by, whom p2p.PeerID) bool {
	s.omu.Lock()
	defer s.omu.Unlock()
	return s.banned[by][whom]
}

// RPC fault codes of the pre-drawn plan
const (
	rpcOK = iota
	rpcTimeout
	rpcError
	rpcTruncate
	rpcFlip
)

func (s *Sim) nextRPCFault() int {
	s.rpcMu.Lock()
	defer s.rpcMu.Unlock()
	if s.rpcNext >= len(s.rpcPlan) {
		return rpcOK
	}
	f := s.rpcPlan[s.rpcNext]
	s.rpcNext++
	return f
}

// unlinkedSegment: the served segment with the first block of a Byzantine generator re-signed over another
// previousBlockID (everything else about it stays valid: it is signed by the rightful generator of its slot).
func (s *Sim) unlinkedSegment(respData []byte) []byte {
	resp := &csync.GetBlocksFromIDResponse{}
	if err := resp.Decode(respData); err != nil || s.Adv == nil {
		return nil
	}
	for _, b := range resp.Blocks {
		v := s.Adv.Keys[string(b.Header.GeneratorAddress)]
		if v == nil {
			continue
		}
		prev := append([]byte(nil), b.Header.PreviousBlockID...)
		prev[len(prev)/2] ^= 1
		b.Header.PreviousBlockID = prev
		b.Header.Sign(s.P.ChainID, v.GenPriv)
		return resp.Encode()
	}
	return nil
}

// rpcLieNow returns the pre-drawn lie of the current request (-1: none).
func (s *Sim) rpcLieNow() int {
	s.rpcMu.Lock()
	defer s.rpcMu.Unlock()
	if i := s.rpcNext - 1; i >= 0 && i < len(s.rpcLie) {
		return s.rpcLie[i]
	}
	return -1
}

// rpcOffset turns the pre-drawn position of the current fault (per mille of the payload) into an offset.
func (s *Sim) rpcOffset(n int) int {
	s.rpcMu.Lock()
	defer s.rpcMu.Unlock()
	pm := 333
	if i := s.rpcNext - 1; i >= 0 && i < len(s.rpcPos) {
		pm = s.rpcPos[i]
	}
	o := n * pm / 1000
	if o >= n {
		o = n - 1
	}
	return o
}

// Livelock is the panic value that unwinds a node step which keeps issuing requests without end.
type Livelock struct {
	Procedure string
	To        p2p.PeerID
}

// Request runs synchronously on the caller's goroutine (possibly a helper goroutine of the sync code): the remote
// handler reads the remote node's state, which does not change during the caller's step.
func (s *Sim) Request(ctx context.Context, from, to p2p.PeerID, procedure string, data []byte) p2p.Response {
	if err := ctx.Err(); err != nil {
		return p2p.VerifResponse(to, nil, err)
	}
	s.rpcMu.Lock()
	s.rpcCount++
	over := s.rpcCount > 3000
	s.rpcMu.Unlock()
	if over {
		// thousands of requests inside one processing step: the caller is spinning (in production: forever, at the
		// download rate limit). Break the loop with an error; the step is reported as a hang when it returns.
		s.rpcMu.Lock()
		if s.livelock == nil {
			s.livelock = &Livelock{Procedure: procedure, To: to}
		}
		s.rpcMu.Unlock()
		return p2p.VerifResponse(to, nil, errors.New("sim: request budget of the step exhausted"))
	}
	fault := s.nextRPCFault()
	if rn := s.nodeByPeer(to); rn != nil && rn.Up && s.Stalled(rn) && s.linked(from, to) {
		fault = rpcTimeout // a suspended process answers nothing
		s.count("rpc_to_stalled_node")
	}
	var respData []byte
	var respErr error
	switch {
	case !s.linked(from, to):
		respErr = errors.New("sim: peer not connected")
	case fault == rpcTimeout:
		respErr = errors.New("timeout")
		s.count("rpc_timeout")
	case fault == rpcError:
		respErr = errors.New("sim: stream reset")
		s.count("rpc_error")
	default:
		if n := s.nodeByPeer(to); n != nil {
			d, err, known := n.Conn.VerifHandleRPC(from, procedure, data)
			if !known {
				respErr = errors.New("sim: unknown procedure")
			} else {
				respData, respErr = d, err
			}
		} else if e := s.extraByPeer(to); e != nil {
			respData, respErr = e.HandleRPC(from, procedure, data)
		}
		if lie := s.rpcLieNow(); lie >= 0 && respErr == nil && procedure == "getHighestCommonBlock" {
			// a Byzantine peer answers with a block far below the fork point: one of the requester's own blocks
			// at or below its finalized height (the reply is not tied to the ids that were asked about)
			if rn, an := s.nodeByPeer(to), s.nodeByPeer(from); rn != nil && rn.IsAdversary && an != nil {
				h := int(an.Finalized()) - lie
				if h < 0 {
					h = 0
				}
				if hd, err := an.Chain.DataAccess().GetBlockHeaderByHeight(uint32(h)); err == nil {
					respData = (&csync.GetHighestCommonBlockResponse{ID: hd.ID}).Encode()
					s.count("byz_lying_common_block")
				}
			}
		}
		if lie := s.rpcLieNow(); lie >= 0 && respErr == nil && procedure == "getBlocksFromId" {
			// a Byzantine peer serves its own block re-signed over a different previousBlockID: valid in every respect
			// except that it does not build on the block before it
			if rn := s.nodeByPeer(to); rn != nil && rn.IsAdversary {
				if alt := s.unlinkedSegment(respData); alt != nil {
					respData = alt
					s.count("byz_serving_unlinked_block")
				}
			}
		}
		if respErr == nil && procedure == "getBlocksFromId" && s.Adv != nil && s.Adv.Enabled {
			if rn := s.nodeByPeer(to); rn != nil && rn.IsAdversary {
				if alt := s.Adv.SwapServed(respData); alt != nil {
					respData = alt
					s.count("byz_serving_payload_swapped_twin")
				}
			}
		}
		if respErr == nil && len(respData) > 0 {
			switch fault {
			case rpcTruncate:
				respData = append([]byte(nil), respData[:s.rpcOffset(len(respData))]...)
				s.count("rpc_truncated")
			case rpcFlip:
				respData = append([]byte(nil), respData...)
				respData[s.rpcOffset(len(respData))] ^= 0x10
				s.count("rpc_bitflip")
			}
		}
	}
	if s.Hooks.RPC != nil {
		s.Hooks.RPC(from, to, procedure, data, respData, respErr, fault)
	}
	if fault == rpcTimeout && s.linked(from, to) {
		// last thing this (possibly helper) goroutine does: the requester wakes up on the expired deadline
		simcontext.Expire(ctx)
	}
	return p2p.VerifResponse(to, respData, respErr)
}

func (s *Sim) count(k string) {
	s.omu.Lock()
	s.Stats[k]++
	s.omu.Unlock()
}

// ---- stepping nodes ---------------------------------------------------------------------------------------------

// planRPC draws the fault plan for the sync RPCs the next node step may issue.
func (s *Sim) planRPC() {
	s.rpcMu.Lock()
	s.rpcNext = 0
	s.rpcCount = 0
	s.rpcPlan = s.rpcPlan[:0]
	s.rpcLie = s.rpcLie[:0]
	s.rpcMu.Unlock()
	if s.Adv != nil && s.Adv.Enabled {
		lies := make([]int, 12)
		for i := range lies {
			lies[i] = -1
			if simkit.Chance(s.T, "rpclie", 1, 5) {
				lies[i] = []int{0, 1, 2, 5}[simkit.Int(s.T, "rpcliedepth", 0, 3)]
			}
		}
		s.rpcMu.Lock()
		s.rpcLie = lies
		s.rpcMu.Unlock()
	}
	if s.Net.RPCFailPct == 0 && s.Net.RPCCorruptPct == 0 {
		return
	}
	plan := make([]int, 12)
	pos := make([]int, 12)
	for i := range plan {
		r := simkit.Int(s.T, "rpcfault", 0, 99)
		if r < s.Net.RPCFailPct+s.Net.RPCCorruptPct && r >= s.Net.RPCFailPct {
			pos[i] = simkit.Int(s.T, "rpcfaultpos", 0, 999)
		}
		switch {
		case r < s.Net.RPCFailPct/2:
			plan[i] = rpcTimeout
		case r < s.Net.RPCFailPct:
			plan[i] = rpcError
		case r < s.Net.RPCFailPct+s.Net.RPCCorruptPct/2:
			plan[i] = rpcTruncate
		case r < s.Net.RPCFailPct+s.Net.RPCCorruptPct:
			plan[i] = rpcFlip
		}
	}
	s.rpcMu.Lock()
	s.rpcPlan = plan
	s.rpcPos = pos
	s.rpcMu.Unlock()
}

// Step runs fn as one step of node n: everything the node publishes or emits is collected afterwards.
func (s *Sim) Step(n *Node, what string, fn func()) (ran bool) {
	if !n.Up {
		return false
	}
	if s.Stalled(n) {
		s.Stats["step_skipped_node_stalled"]++
		return false
	}
	s.Steps++
	if n.armPending && n.FS != nil {
		n.armPending = false
		n.FS.SetCountable(simfs.WALSync)
		n.FS.CrashIn(n.crashK, n.crashTear)
		n.CrashArmed = true
	}
	s.cur = n
	s.planRPC()
	if s.Hooks.BeforeNodeStep != nil {
		s.Hooks.BeforeNodeStep(n, what)
	}
	simrand.SetSource(func(k int) int { return 0 })
	body := func() {
		defer func() {
			if r := recover(); r != nil {
				if _, known := r.(simkit.KnownAbort); known {
					panic(r)
				}
				if strings.HasPrefix(fmt.Sprintf("%T", r), "rapid.") || strings.HasPrefix(fmt.Sprintf("%T", r), "*rapid.") {
					panic(r) // rapid's own control flow (failed assertion, exhausted choice sequence)
				}
				n.Up = false // the process is gone (panic) or hung (livelock)
				n.Hung = true
				s.Stats["node_panic_or_hang"]++
				if s.NodePanic != nil {
					s.NodePanic(n, what, r)
				} else {
					panic(r)
				}
			}
		}()
		fn()
		s.collect(n, what)
		if simkit.DetFine() && n.Up {
			simkit.DetLog("%v step %s %q tip=%d/%x queue=%d", s.Now(), n.Name, what, n.Tip().Height, []byte(n.Tip().ID)[:4], s.q.Len())
		}
		s.rpcMu.Lock()
		ll := s.livelock
		s.livelock = nil
		s.rpcMu.Unlock()
		if ll != nil {
			panic(*ll)
		}
	}
	if (n.CrashArmed || n.AlwaysCrashable) && n.FS != nil {
		// the step runs as the node's process: at the armed file-system call it dies with everything it started
		s.curCrashable = true
		crashed, pv := simfs.RunCrashable(n.FS, body)
		s.curCrashable = false
		if pv != nil {
			panic(pv) // (rapid's control flow and known-finding aborts, re-raised on the simulator's goroutine)
		}
		if !crashed && n.FS.Disarm() {
			crashed = true
		}
		if crashed {
			s.nodeDied(n, what)
		} else if n.Up && n.CrashArmed {
			if n.ArmThisStepOnly {
				n.CrashArmed, n.ArmThisStepOnly = false, false // the step did not get that far: the kill is called off
			} else {
				n.FS.CrashIn(n.crashK, n.crashTear) // not reached in this step: stays armed for the next one
			}
		}
	} else {
		body()
	}
	s.cur = nil
	return true
}

// DisarmCrashes calls off every kill that is armed and has not fired yet (a kill armed at the k-th commit of a step
// waits for a step with that many commits - a synchronization, typically - which may be a long time coming).
func (s *Sim) DisarmCrashes() {
	for _, n := range s.Nodes {
		if n.FS != nil && (n.CrashArmed || n.armPending) {
			n.FS.Disarm()
			n.CrashArmed, n.armPending, n.ArmThisStepOnly = false, false, false
			n.onDied = nil
			s.Stats["armed_kill_called_off"]++
		}
	}
}

// Stalled reports whether node n's process is suspended right now.
func (s *Sim) Stalled(n *Node) bool { return n.StalledUntil > s.Now() }

// ArmCrash arms node n's disk to kill the node at the k-th file-system call of one of its next steps.
func (s *Sim) ArmCrash(n *Node, k, tear int, power bool) {
	if !n.Up || n.FS == nil {
		return
	}
	n.crashK, n.crashTear, n.CrashPower = k, tear, power
	if s.cur == n && !s.curCrashable {
		// asked for from inside a step of this node (which runs on the simulator's own goroutine): takes effect with the
		// next step
		n.armPending = true
		return
	}
	// the crash lands on the k-th commit (write-ahead log sync) of the node's coming steps: the process dies when the
	// record is written and not yet synced - a kill keeps it (the step's effect up to and including this commit is
	// found at restart), a power loss drops it
	n.FS.SetCountable(simfs.WALSync)
	n.FS.CrashIn(k, tear)
	n.CrashArmed = true
}

func (s *Sim) nodeDied(n *Node, what string) {
	s.Stats["crash_inside_step"]++
	if why, ok := n.FS.Why.Load().(string); ok {
		// which database the fatal call was on (reach probe)
		for _, d := range []string{"blockchain.db", "generator.db", "state.db", "module.db"} {
			if strings.Contains(why, d) {
				simkit.Probe("killed_in_" + strings.SplitN(what, " ", 2)[0] + "_step_at_" + d)
			}
		}
	}
	n.CrashArmed = false
	// what the process had handed to the network before it died is out
	s.flushOutbox()
	n.Stop(false, n.CrashPower)
	if s.Hooks.NodeDied != nil {
		s.Hooks.NodeDied(n, what)
	}
	if s.OnNodeDied != nil {
		s.OnNodeDied(n)
	}
}

func (s *Sim) collect(n *Node, what string) {
	// process whatever the step queued for the consensus loop (internal blocks, received blocks)
	for n.Up {
		var tipBefore *blockchain.BlockHeader
		if s.Hooks.Processed != nil {
			tipBefore = n.Tip()
			if s.Hooks.BeforeProcess != nil {
				s.Hooks.BeforeProcess(n)
			}
		}
		s.rpcMu.Lock()
		rpcBefore := s.rpcCount
		s.rpcMu.Unlock()
		did, blk, from, err := n.Exec.VerifStepBlock()
		if !did {
			break
		}
		if s.Hooks.Processed != nil && n.Up {
			s.rpcMu.Lock()
			rpcs := s.rpcCount - rpcBefore
			s.rpcMu.Unlock()
			s.Hooks.Processed(n, blk, from, tipBefore, err, rpcs)
		}
	}
	for _, m := range n.DrainEvents() {
		switch msg := m.(type) {
		case *consensus.EventBlockNewMessage:
			n.Gen.VerifOnNewBlock(msg)
		case *consensus.EventBlockDeleteMessage:
			n.Gen.VerifOnDeleteBlock(msg)
		case *consensus.EventBlockFinalizeMessage:
			n.Gen.VerifOnFinalizeBlock(msg)
		}
		if s.Hooks.BlockEvent != nil {
			s.Hooks.BlockEvent(n, m)
		}
	}
	s.flushOutbox()
	if s.Hooks.AfterNodeStep != nil {
		s.Hooks.AfterNodeStep(n, what)
	}
}

func msgHash(topic string, data []byte) [32]byte {
	h := sha256.New()
	h.Write([]byte(topic))
	h.Write(data)
	var out [32]byte
	copy(out[:], h.Sum(nil))
	return out
}

func (s *Sim) latency() time.Duration {
	if s.Net.MaxLatency <= s.Net.MinLatency {
		return s.Net.MinLatency
	}
	ms := simkit.Int(s.T, "latency", int(s.Net.MinLatency/time.Millisecond), int(s.Net.MaxLatency/time.Millisecond))
	return time.Duration(ms) * time.Millisecond
}

func (s *Sim) flushOutbox() {
	s.omu.Lock()
	out := s.outbox
	s.outbox = nil
	s.omu.Unlock()
	for _, p := range out {
		s.seen[p.from][msgHash(p.topic, p.data)] = true
		s.fanout(p.from, p.from, p.topic, p.data)
	}
}

// fanout schedules delivery of a gossip message from `sender` to its neighbours (except `origin`).
func (s *Sim) fanout(sender, origin p2p.PeerID, topic string, data []byte) {
	if s.TopicBlackout[topic] {
		s.Stats["gossip_topic_blackout"]++
		return
	}
	if sn := s.nodeByPeer(sender); sn != nil && sn.MutedUntil > s.Now() {
		s.Stats["gossip_from_muted_node_lost"]++
		return
	}
	for _, to := range s.Peers(sender) {
		if to == origin {
			continue
		}
		to := to
		if s.Net.DropPct > 0 && simkit.Int(s.T, "drop", 0, 99) < s.Net.DropPct {
			s.Stats["gossip_dropped"]++
			continue
		}
		lat := s.latency()
		s.At(lat, "gossip "+topic, func() { s.deliverGossip(sender, to, topic, data) })
		if s.Net.DupPct > 0 && simkit.Int(s.T, "dup", 0, 99) < s.Net.DupPct {
			s.Stats["gossip_duplicated"]++
			s.At(lat+s.latency(), "gossip-dup "+topic, func() { s.deliverGossip(sender, to, topic, data) })
		}
	}
}

func (s *Sim) deliverGossip(from, to p2p.PeerID, topic string, data []byte) {
	if !s.linked(from, to) {
		s.Stats["gossip_cut"]++
		return
	}
	if sn := s.nodeByPeer(to); sn != nil && sn.Up && s.Stalled(sn) {
		// the connection stays up while the process is suspended: the message waits in the socket buffer
		s.Stats["gossip_held_for_stalled_node"]++
		s.At(sn.StalledUntil-s.Now(), "gossip "+topic, func() { s.deliverGossip(from, to, topic, data) })
		return
	}
	h := msgHash(topic, data)
	if s.seen[to][h] {
		return
	}
	s.seen[to][h] = true
	if e := s.extraByPeer(to); e != nil {
		e.HandleGossip(from, topic, data)
		return
	}
	n := s.nodeByPeer(to)
	if n == nil || !n.Up {
		return
	}
	s.Stats["gossip_delivered"]++
	if s.Hooks.BeforeGossip != nil {
		s.Hooks.BeforeGossip(n, from, topic, data)
		if !n.Up {
			return
		}
	}
	s.Step(n, "gossip "+topic, func() {
		if s.Hooks.Gossip != nil {
			s.Hooks.Gossip(n, from, topic, data)
		}
		switch n.Conn.VerifValidate(context.Background(), topic, data) {
		case p2p.ValidationAccept:
			n.Conn.VerifHandleEvent(from, topic, data)
			s.Publish(to, topic, data) // forward (re-gossip) - goes through the outbox like an own publish
		case p2p.ValidationReject:
			s.Stats["gossip_rejected"]++
			s.Penalty(to, from, 100)
		}
	})
}

// InjectGossip delivers a payload to one node as if it came from peer `from` (adversary, tests).
func (s *Sim) InjectGossip(from p2p.PeerID, to *Node, topic string, data []byte, after time.Duration) {
	s.At(after, "inject "+topic, func() { s.deliverGossip(from, to.Peer, topic, data) })
}

// StartTicks schedules the periodic branches of the node loops: generator check (1 s), promotion of pooled
// transactions (1 s) and certificate broadcast (5 s).
func (s *Sim) StartTicks(n *Node) {
	starts := n.Starts
	var tick func()
	k := 0
	tick = func() {
		if !n.Up || n.Starts != starts {
			return
		}
		k++
		if s.Stalled(n) {
			// a suspended process misses its ticks (a Go ticker drops them) and goes on with the next one after it
			s.At(time.Second, "tick "+n.Name, tick)
			return
		}
		s.Step(n, "tick", func() {
			n.Pool.VerifReorg()
			before := n.Exec.VerifQueueLen()
			if s.Hooks.BeforeForge != nil {
				s.Hooks.BeforeForge(n)
			}
			n.Gen.VerifForge()
			if n.Exec.VerifQueueLen() > before {
				s.Stats["forged"]++
				if s.Hooks.Forged != nil {
					s.Hooks.Forged(n, nil)
				}
			}
			if k%5 == 0 {
				_ = n.Exec.VerifBroadcastCertificate()
			}
		})
		s.At(time.Second, "tick "+n.Name, tick)
	}
	s.At(time.Duration(50+7*n.ID)*time.Millisecond, "tick "+n.Name, tick)
}

// Run executes events until the simulated time `until` (or the step budget) is reached. inv is evaluated after
// every event.
func (s *Sim) Run(until time.Duration, maxEvents int, inv func()) {
	n := 0
	for s.q.Len() > 0 && n < maxEvents {
		e := s.q[0]
		if e.at > until {
			break
		}
		heap.Pop(&s.q)
		simrt.C.AdvanceTo(e.at)
		e.fn()
		n++
		if inv != nil {
			inv()
		}
	}
	if s.Now() < until && s.q.Len() == 0 {
		simrt.C.AdvanceTo(until)
	}
}

// GenesisUnix is the unix time of the simulated epoch the chain starts at.
func (s *Sim) GenesisUnix() uint32 { return s.genesisTime }
