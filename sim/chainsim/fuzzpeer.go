package chainsim

import (
	"bytes"
	"context"
	"fmt"
	"time"

	"github.com/LiskHQ/lisk-engine/pkg/blockchain"
	"github.com/LiskHQ/lisk-engine/pkg/codec"
	"github.com/LiskHQ/lisk-engine/pkg/consensus"
	"github.com/LiskHQ/lisk-engine/pkg/consensus/certificate"
	csync "github.com/LiskHQ/lisk-engine/pkg/consensus/sync"
	"github.com/LiskHQ/lisk-engine/pkg/p2p"
	"github.com/LiskHQ/lisk-engine/pkg/txpool"

	"pgregory.net/rapid"

	"verif/sim/simkit"
)

// FuzzPeer is the "hostile or broken peer" fault of C09: it remembers the payloads the honest nodes exchange (blocks,
// single commits, transactions, sync requests and responses) and, at drawn instants, hands a node a corrupted copy
// through the same entry points a peer's message takes: the gossip validator and handler of each topic, and the RPC
// handler of each procedure. Corruptions: truncation at a drawn offset, flipped bit, byte overwritten with an extreme
// value, a length/varint field blown up, a slice duplicated or dropped, a few random bytes, nothing at all; and crafted
// messages that pass every cheap check so that the expensive verifiers see garbage (correctly signed block with a
// nonsense aggregate commit, single commit by a real validator for a real block with a signature that is no curve
// point). A panic in any of those steps would have killed the process and is a verdict; so is a step that never ends.
type FuzzPeer struct {
	W      *World
	S      *Sim
	M      *Monitor
	Peer   p2p.PeerID
	corpus map[string][][]byte // gossip topic or "req:"+procedure -> payloads seen
}

var fuzzTopics = []string{consensus.P2PEventPostBlock, consensus.P2PEventPostSingleCommits, txpool.RPCEventPostTransactionAnnouncement}
var fuzzProcs = []string{csync.RPCEndpointGetLastBlock, csync.RPCEndpointGetHighestCommonBlock, csync.RPCEndpointGetBlocksFromID, txpool.RPCEndpointGetTransactions}

func NewFuzzPeer(w *World, m *Monitor, every time.Duration) *FuzzPeer {
	f := &FuzzPeer{W: w, S: w.S, M: m, Peer: "peer-fuzz", corpus: map[string][][]byte{}}
	s := w.S
	keep := func(k string, b []byte) {
		if len(b) == 0 {
			return
		}
		l := f.corpus[k]
		if len(l) >= 6 {
			l = l[1:]
		}
		f.corpus[k] = append(l, append([]byte(nil), b...))
	}
	prevG := s.Hooks.Gossip
	s.Hooks.Gossip = func(to *Node, from p2p.PeerID, topic string, data []byte) {
		if prevG != nil {
			prevG(to, from, topic, data)
		}
		if from != f.Peer {
			keep(topic, data)
		}
	}
	prevR := s.Hooks.RPC
	s.Hooks.RPC = func(from, to p2p.PeerID, procedure string, req, resp []byte, err error, fault int) {
		if prevR != nil {
			prevR(from, to, procedure, req, resp, err, fault)
		}
		keep("req:"+procedure, req)
	}
	var tick func()
	tick = func() {
		f.act()
		s.At(every, "fuzz peer", tick)
	}
	s.At(every, "fuzz peer", tick)
	return f
}

func (f *FuzzPeer) pick() *Node {
	var ups []*Node
	for _, n := range f.S.Nodes {
		if n.Up && !n.IsAdversary {
			ups = append(ups, n)
		}
	}
	if len(ups) == 0 {
		return nil
	}
	return ups[simkit.Int(f.W.T, "fuzznode", 0, len(ups)-1)]
}

// MutateBytes applies one of the hostile peer's corruptions to a message outside a running world (the decoder gallery of
// C09 uses the same seeded mutators as the simulated peer).
func MutateBytes(t *rapid.T, b []byte) ([]byte, string) {
	return (&FuzzPeer{W: &World{T: t}}).mutate(b)
}

// mutate returns a corrupted copy and the name of the corruption.
func (f *FuzzPeer) mutate(b []byte) ([]byte, string) {
	t := f.W.T
	c := append([]byte(nil), b...)
	if len(c) == 0 {
		return simkit.Bytes(t, "fzrand", 0, 8), "random-bytes"
	}
	switch simkit.Int(t, "fzkind", 0, 12) {
	case 11, 12:
		// corruption inside a nested length-delimited field (a header inside a block, a commit inside a header, a block
		// inside a sync response, ...) with the length prefixes of the enclosing fields made to fit again: the outer
		// decoder hands the inner one a complete but damaged message
		if out, how, ok := f.nestedMutate(c, 3); ok {
			return out, "nested-" + how
		}
		return c[:len(c)/2], "truncated"
	case 9:
		// the length prefix of a length-delimited field (top level or one level down) replaced by a ten-byte varint
		// of 2^63, 2^63+20 or 2^64-1
		if out, ok := replaceLengthPrefix(c, simkit.Int(t, "fzfield", 0, 40), simkit.Int(t, "fzhuge", 0, 2)); ok {
			return out, "length-prefix-above-2^63"
		}
		return c[:len(c)/2], "truncated"
	case 10:
		i := simkit.Int(t, "fzvar", 0, len(c)-1)
		out := append(append([]byte(nil), c[:i]...), hugeVarints[simkit.Int(t, "fzhuge", 0, 2)]...)
		return append(out, c[i:]...), "ten-byte-varint-inserted"
	case 0:
		return c[:simkit.Int(t, "fzcut", 0, len(c)-1)], "truncated"
	case 1:
		i := simkit.Int(t, "fzbit", 0, len(c)*8-1)
		c[i/8] ^= 1 << uint(i%8)
		return c, "bit-flip"
	case 2:
		c[simkit.Int(t, "fzpos", 0, len(c)-1)] = []byte{0x00, 0x7f, 0x80, 0xff}[simkit.Int(t, "fzval", 0, 3)]
		return c, "extreme-byte"
	case 3:
		// a varint blown up: five bytes of continuation at a drawn position (lengths, counts, heights)
		i := simkit.Int(t, "fzvar", 0, len(c)-1)
		out := append(append([]byte(nil), c[:i]...), 0xff, 0xff, 0xff, 0xff, 0x0f)
		return append(out, c[i:]...), "huge-varint-inserted"
	case 4:
		i := simkit.Int(t, "fzdupa", 0, len(c)-1)
		j := simkit.Int(t, "fzdupb", i, len(c)-1)
		out := append(append([]byte(nil), c[:j]...), c[i:j]...)
		return append(out, c[j:]...), "slice-duplicated"
	case 5:
		i := simkit.Int(t, "fzdropa", 0, len(c)-1)
		j := simkit.Int(t, "fzdropb", i, len(c)-1)
		return append(append([]byte(nil), c[:i]...), c[j:]...), "slice-dropped"
	case 6:
		return []byte{}, "empty"
	case 7:
		return simkit.Bytes(t, "fzrand", 0, 8), "random-bytes"
	default:
		return append(c, simkit.Bytes(t, "fztail", 1, 4)...), "trailing-bytes"
	}
}

func (f *FuzzPeer) act() {
	t := f.W.T
	n := f.pick()
	if n == nil {
		return
	}
	switch simkit.Int(t, "fuzzwhat", 0, 3) {
	case 0, 1:
		topic := fuzzTopics[simkit.Int(t, "fuzztopic", 0, len(fuzzTopics)-1)]
		var base []byte
		if l := f.corpus[topic]; len(l) > 0 {
			base = l[simkit.Int(t, "fuzzbase", 0, len(l)-1)]
		}
		if base == nil && topic == txpool.RPCEventPostTransactionAnnouncement {
			tx := &blockchain.Transaction{Module: "sim", Command: "prog", Nonce: uint64(simkit.Int(t, "fztxnonce", 0, 3)), Fee: 1000, SenderPublicKey: bytes.Repeat([]byte{9}, 32), Params: []byte{}, Signatures: []codec.Hex{bytes.Repeat([]byte{1}, 64)}}
			base = tx.Encode()
		}
		payload, how := f.mutate(base)
		f.gossip(n, topic, payload, how)
	case 2:
		proc := fuzzProcs[simkit.Int(t, "fuzzproc", 0, len(fuzzProcs)-1)]
		var base []byte
		if l := f.corpus["req:"+proc]; len(l) > 0 {
			base = l[simkit.Int(t, "fuzzbase", 0, len(l)-1)]
		}
		payload, how := f.mutate(base)
		simkit.Fault("hostile_rpc_request_" + how)
		simkit.Probe("c09_rpc_request_" + proc)
		f.S.Step(n, fmt.Sprintf("hostile request %s (%s, %d bytes)", proc, how, len(payload)), func() {
			n.Conn.VerifHandleRPC(f.Peer, proc, payload)
		})
	default:
		f.crafted(n)
	}
}

func (f *FuzzPeer) gossip(n *Node, topic string, payload []byte, how string) {
	simkit.Fault("hostile_gossip_" + how)
	simkit.Probe("c09_gossip_" + topic)
	f.S.Step(n, fmt.Sprintf("hostile gossip %s (%s, %d bytes)", topic, how, len(payload)), func() {
		if f.S.Hooks.Gossip != nil {
			f.S.Hooks.Gossip(n, f.Peer, topic, payload)
		}
		if n.Conn.VerifValidate(context.Background(), topic, payload) == p2p.ValidationAccept {
			simkit.Probe("c09_corrupted_payload_passed_validator")
			n.Conn.VerifHandleEvent(f.Peer, topic, payload)
		}
	})
}

// crafted messages pass the cheap checks and carry garbage where the expensive ones look.
func (f *FuzzPeer) crafted(n *Node) {
	t := f.W.T
	tip := n.Tip()
	garbageSig := func() []byte {
		switch simkit.Int(t, "fzsig", 0, 3) {
		case 0:
			return bytes.Repeat([]byte{0xff}, 96)
		case 1:
			return make([]byte, 96)
		case 2:
			return append([]byte{0xc0}, make([]byte, 95)...) // the encoding of the point at infinity
		default:
			return simkit.Bytes(t, "fzsigbytes", 96, 96)
		}
	}
	if simkit.Bool(t, "craftblock") {
		// successor of the node's tip by the right generator, correctly signed, with a nonsense aggregate commit
		tb := f.M.Tree.ByID[string(tip.ID)]
		if tb == nil {
			return
		}
		var base *blockchain.Block
		if l := f.corpus[consensus.P2PEventPostBlock]; len(l) > 0 {
			if b, err := blockchain.NewBlock(l[len(l)-1]); err == nil {
				base = b
			}
		}
		if base == nil {
			return
		}
		var gen *Validator
		for _, v := range f.W.Vals {
			if bytes.Equal(v.Address, base.Header.GeneratorAddress) {
				gen = v
			}
		}
		if gen == nil {
			return
		}
		c := cloneBlock(base)
		st := tb.BFT
		h := st.MaxHeightCertified + 1
		if st.MaxHeightPrecommitted > h && simkit.Bool(t, "fzach") {
			h = st.MaxHeightPrecommitted
		}
		c.Header.AggregateCommit = &blockchain.AggregateCommit{Height: h, AggregationBits: simkit.Bytes(t, "fzbits", 1, 3), CertificateSignature: garbageSig()}
		if simkit.Chance(t, "fzshortsig", 1, 4) {
			c.Header.AggregateCommit.CertificateSignature = c.Header.AggregateCommit.CertificateSignature[:simkit.Int(t, "fzsiglen", 1, 95)]
		}
		c.Header.Sign(f.W.P.ChainID, gen.GenPriv)
		f.gossip(n, consensus.P2PEventPostBlock, c.Encode(), "crafted-aggregate-commit")
		return
	}
	// single commit by a real validator for a real block of the node's chain, signature that is no signature
	if tip.Height < 1 {
		return
	}
	h := uint32(simkit.Int(t, "fzsch", 1, int(tip.Height)))
	if _, pc, _ := n.Heights(); pc >= 1 && simkit.Bool(t, "fzscnear") {
		h = pc
	}
	header, err := n.Chain.DataAccess().GetBlockHeaderByHeight(h)
	if err != nil {
		return
	}
	v := f.W.Vals[simkit.Int(t, "fzscval", 0, len(f.W.Vals)-1)]
	sc := certificate.VerifNewSingleCommit(header.ID, header.Height, v.Address, garbageSig())
	f.gossip(n, consensus.P2PEventPostSingleCommits, consensus.VerifPostSingleCommits(certificate.SingleCommits{sc}), "crafted-single-commit")
}

var hugeVarints = [][]byte{
	{0x80, 0x80, 0x80, 0x80, 0x80, 0x80, 0x80, 0x80, 0x80, 0x01}, // 2^63
	{0x94, 0x80, 0x80, 0x80, 0x80, 0x80, 0x80, 0x80, 0x80, 0x01}, // 2^63 + 20
	{0xff, 0xff, 0xff, 0xff, 0xff, 0xff, 0xff, 0xff, 0xff, 0x01}, // 2^64 - 1
}

// replaceLengthPrefix walks the payload as a sequence of (key varint, value) fields, descending once into
// length-delimited values, collects the positions of length prefixes and replaces the k-th (mod their number).
// nestedMutate picks a length-delimited field of the message, damages its content (cut at a drawn offset, cut right
// after a field key, one byte replaced, or - going one level down - the same inside one of its own fields) and
// re-encodes it with a fitting length prefix.
func (f *FuzzPeer) nestedMutate(b []byte, depth int) ([]byte, string, bool) {
	t := f.W.T
	type field struct{ start, val, end int } // key at start, content b[val:end]
	var fields []field
	readVarint := func(p int) (uint64, int) {
		var v uint64
		for i := 0; i < 10 && p+i < len(b); i++ {
			v |= uint64(b[p+i]&0x7f) << (7 * uint(i))
			if b[p+i] < 0x80 {
				return v, i + 1
			}
		}
		return 0, 0
	}
	var keyEnds []int // offsets right after a field key (of any wire type)
	for p := 0; p < len(b); {
		start := p
		key, n := readVarint(p)
		if n == 0 {
			break
		}
		p += n
		keyEnds = append(keyEnds, p)
		if key&7 == 0 {
			_, n := readVarint(p)
			if n == 0 {
				break
			}
			p += n
			continue
		}
		if key&7 != 2 {
			break
		}
		l, n := readVarint(p)
		if n == 0 || l > uint64(len(b)) || p+n+int(l) > len(b) {
			break
		}
		fields = append(fields, field{start, p + n, p + n + int(l)})
		p += n + int(l)
	}
	if len(fields) == 0 {
		return nil, "", false
	}
	fl := fields[simkit.Int(t, "fznfield", 0, len(fields)-1)]
	content := append([]byte(nil), b[fl.val:fl.end]...)
	var inner []byte
	how := ""
	if depth > 1 && len(content) > 2 && simkit.Bool(t, "fzndeeper") {
		if in2, h, ok := f.nestedMutate(content, depth-1); ok {
			inner, how = in2, h
		}
	}
	if how == "" {
		switch k := simkit.Int(t, "fznkind", 0, 3); {
		case len(content) == 0:
			inner, how = []byte{byte(simkit.Int(t, "fznbyte", 0, 255))}, "one-byte-content"
		case k == 0:
			inner, how = content[:simkit.Int(t, "fzncut", 0, len(content)-1)], "cut"
		case k == 1:
			// cut right after a field key of the inner message: the value (varint, boolean, length) is missing
			sub := &FuzzPeer{W: f.W}
			ends := sub.keyEnds(content)
			if len(ends) == 0 {
				inner, how = content[:len(content)/2], "cut"
			} else {
				inner, how = content[:ends[simkit.Int(t, "fznkey", 0, len(ends)-1)]], "cut-after-key"
			}
		case k == 2:
			inner = content
			inner[simkit.Int(t, "fznpos", 0, len(inner)-1)] = byte(simkit.Int(t, "fznbyte", 0, 255))
			how = "byte-replaced"
		default:
			// a lone field key as the whole content: every field number up to 31, both wire types
			inner, how = []byte{byte(simkit.Int(t, "fznfn", 1, 31)<<3 | []int{0, 2}[simkit.Int(t, "fznwt", 0, 1)])}, "lone-key"
		}
	}
	_ = keyEnds
	out := append([]byte(nil), b[:fl.start]...)
	klen := fl.val - fl.start // key + old length prefix
	// copy the key (everything before the old length prefix)
	_, kn := readVarint(fl.start)
	out = append(out, b[fl.start:fl.start+kn]...)
	_ = klen
	l := uint64(len(inner))
	for l >= 0x80 {
		out = append(out, byte(l)|0x80)
		l >>= 7
	}
	out = append(out, byte(l))
	out = append(out, inner...)
	return append(out, b[fl.end:]...), how, true
}

// keyEnds lists the offsets right after each field key of a message.
func (f *FuzzPeer) keyEnds(b []byte) []int {
	var ends []int
	readVarint := func(p int) (uint64, int) {
		var v uint64
		for i := 0; i < 10 && p+i < len(b); i++ {
			v |= uint64(b[p+i]&0x7f) << (7 * uint(i))
			if b[p+i] < 0x80 {
				return v, i + 1
			}
		}
		return 0, 0
	}
	for p := 0; p < len(b); {
		key, n := readVarint(p)
		if n == 0 {
			break
		}
		p += n
		ends = append(ends, p)
		_, n2 := readVarint(p)
		if n2 == 0 {
			break
		}
		if key&7 == 0 {
			p += n2
		} else if key&7 == 2 {
			l, _ := readVarint(p)
			if l > uint64(len(b)) {
				break
			}
			p += n2 + int(l)
		} else {
			break
		}
	}
	return ends
}

func replaceLengthPrefix(b []byte, k, which int) ([]byte, bool) {
	type span struct{ at, n int }
	var spans []span
	readVarint := func(p int) (uint64, int) {
		var v uint64
		for i := 0; i < 10 && p+i < len(b); i++ {
			v |= uint64(b[p+i]&0x7f) << (7 * uint(i))
			if b[p+i] < 0x80 {
				return v, i + 1
			}
		}
		return 0, 0
	}
	var walk func(lo, hi, depth int)
	walk = func(lo, hi, depth int) {
		p := lo
		for p < hi {
			key, n := readVarint(p)
			if n == 0 {
				return
			}
			p += n
			switch key & 7 {
			case 0:
				_, n := readVarint(p)
				if n == 0 {
					return
				}
				p += n
			case 2:
				l, n := readVarint(p)
				if n == 0 || p+n+int(l) > hi || int(l) < 0 {
					return
				}
				spans = append(spans, span{p, n})
				if depth < 2 {
					walk(p+n, p+n+int(l), depth+1)
				}
				p += n + int(l)
			default:
				return
			}
		}
	}
	walk(0, len(b), 0)
	if len(spans) == 0 {
		return nil, false
	}
	sp := spans[k%len(spans)]
	out := append(append([]byte(nil), b[:sp.at]...), hugeVarints[which]...)
	return append(out, b[sp.at+sp.n:]...), true
}
