module verif/sim

go 1.23

require (
	github.com/LiskHQ/lisk-engine v0.0.0
	github.com/anishathalye/porcupine v1.3.0
	github.com/cockroachdb/pebble v0.0.0-20221021145029-f34af25a0187
	pgregory.net/rapid v1.3.0
)

require (
	github.com/DataDog/zstd v1.5.2 // indirect
	github.com/beorn7/perks v1.0.1 // indirect
	github.com/cespare/xxhash/v2 v2.2.0 // indirect
	github.com/cockroachdb/errors v1.9.0 // indirect
	github.com/cockroachdb/logtags v0.0.0-20211118104740-dabe8e521a4f // indirect
	github.com/cockroachdb/redact v1.1.3 // indirect
	github.com/getsentry/sentry-go v0.14.0 // indirect
	github.com/gogo/protobuf v1.3.2 // indirect
	github.com/golang/protobuf v1.5.3 // indirect
	github.com/golang/snappy v0.0.4 // indirect
	github.com/kr/pretty v0.3.1 // indirect
	github.com/kr/text v0.2.0 // indirect
	github.com/matttproud/golang_protobuf_extensions v1.0.4 // indirect
	github.com/pkg/errors v0.9.1 // indirect
	github.com/prometheus/client_golang v1.14.0 // indirect
	github.com/prometheus/client_model v0.4.0 // indirect
	github.com/prometheus/common v0.42.0 // indirect
	github.com/prometheus/procfs v0.9.0 // indirect
	github.com/rogpeppe/go-internal v1.9.0 // indirect
	github.com/supranational/blst v0.3.11 // indirect
	github.com/tyler-smith/go-bip39 v1.1.0 // indirect
	golang.org/x/crypto v0.17.0 // indirect
	golang.org/x/exp v0.0.0-20231006140011-7918f672742d // indirect
	golang.org/x/sync v0.4.0 // indirect
	golang.org/x/sys v0.15.0 // indirect
	golang.org/x/text v0.14.0 // indirect
	google.golang.org/protobuf v1.30.0 // indirect
)

replace github.com/LiskHQ/lisk-engine => /repo
