package simrt

import (
	"fmt"
	"sync"
)

// The lock models reproduce Go's blocking semantics deterministically (in particular: a pending writer blocks
// new readers of an RWMutex). Each facade type in simsync embeds a model and the real primitive; the real one is
// taken only after the model has granted it, so it is never contended and only serves as the happens-before
// edge the race detector sees.

var lockNames sync.Map

type MutexModel struct {
	id     int
	held   bool
	holder *Task
}

type waitMutex struct{ m *MutexModel }

//go:norace
func (w waitMutex) Ready(*Task) bool { return !w.m.held }
func (w waitMutex) Describe() string {
	return fmt.Sprintf("Mutex#%d held by %v", w.m.id, w.m.holder)
}

// YieldLocks makes every lock acquisition a schedule point (schedsim). Set per run by the harness.
var YieldLocks = true

//go:norace
func (m *MutexModel) Lock(t *Task) {
	k := kptr.Load()
	if YieldLocks {
		park(t, "lock", alwaysReady{})
	}
	for {
		k.lock()
		if m.id == 0 {
			k.lockSeq++
			m.id = k.lockSeq
		}
		if !m.held {
			m.held = true
			m.holder = t
			k.unlock()
			return
		}
		k.unlock()
		park(t, "lockwait", waitMutex{m})
	}
}

//go:norace
func (m *MutexModel) TryLock(t *Task) bool {
	k := kptr.Load()
	k.lock()
	defer k.unlock()
	if m.held {
		return false
	}
	m.held = true
	m.holder = t
	return true
}

//go:norace
func (m *MutexModel) Unlock(t *Task) {
	k := kptr.Load()
	if k.aborted.Load() {
		return
	}
	k.lock()
	if !m.held {
		k.unlock()
		panic("simsync: unlock of unlocked mutex")
	}
	m.held = false
	m.holder = nil
	k.unlock()
}

//go:norace
func (m *MutexModel) Held() bool { return m.held }

type RWMutexModel struct {
	id       int
	writer   *Task
	wheld    bool
	readers  int
	pendingW int
	rholders [8]*Task // diagnostic only
}

type waitR struct{ m *RWMutexModel }
type waitW struct{ m *RWMutexModel }

//go:norace
func (w waitR) Ready(*Task) bool { return !w.m.wheld && w.m.pendingW == 0 }
func (w waitR) Describe() string {
	return fmt.Sprintf("RWMutex#%d.RLock (writer=%v pendingWriters=%d readers=%d %v)", w.m.id, w.m.writer, w.m.pendingW, w.m.readers, w.m.readerList())
}

//go:norace
func (w waitW) Ready(*Task) bool { return !w.m.wheld && w.m.readers == 0 }
func (w waitW) Describe() string {
	return fmt.Sprintf("RWMutex#%d.Lock (writer=%v readers=%d %v)", w.m.id, w.m.writer, w.m.readers, w.m.readerList())
}

func (m *RWMutexModel) readerList() []string {
	var out []string
	for _, r := range m.rholders {
		if r != nil {
			out = append(out, r.String())
		}
	}
	return out
}

//go:norace
func (m *RWMutexModel) assignID(k *Kernel) {
	if m.id == 0 {
		k.lockSeq++
		m.id = k.lockSeq
	}
}

//go:norace
func (m *RWMutexModel) RLock(t *Task) {
	k := kptr.Load()
	if YieldLocks {
		park(t, "rlock", alwaysReady{})
	}
	for {
		k.lock()
		m.assignID(k)
		if !m.wheld && m.pendingW == 0 {
			m.readers++
			for i := range m.rholders {
				if m.rholders[i] == nil {
					m.rholders[i] = t
					break
				}
			}
			k.unlock()
			return
		}
		k.unlock()
		park(t, "rlockwait", waitR{m})
	}
}

//go:norace
func (m *RWMutexModel) RUnlock(t *Task) {
	k := kptr.Load()
	if k.aborted.Load() {
		return
	}
	k.lock()
	if m.readers <= 0 {
		k.unlock()
		panic("simsync: RUnlock of unlocked RWMutex")
	}
	m.readers--
	for i := range m.rholders {
		if m.rholders[i] == t {
			m.rholders[i] = nil
			break
		}
	}
	k.unlock()
}

//go:norace
func (m *RWMutexModel) Lock(t *Task) {
	k := kptr.Load()
	if YieldLocks {
		park(t, "wlock", alwaysReady{})
	}
	k.lock()
	m.assignID(k)
	if !m.wheld && m.readers == 0 {
		m.wheld = true
		m.writer = t
		k.unlock()
		return
	}
	m.pendingW++
	k.unlock()
	for {
		park(t, "wlockwait", waitW{m})
		k.lock()
		if !m.wheld && m.readers == 0 {
			m.wheld = true
			m.writer = t
			m.pendingW--
			k.unlock()
			return
		}
		k.unlock()
	}
}

//go:norace
func (m *RWMutexModel) Unlock(t *Task) {
	k := kptr.Load()
	if k.aborted.Load() {
		return
	}
	k.lock()
	if !m.wheld {
		k.unlock()
		panic("simsync: Unlock of unlocked RWMutex")
	}
	m.wheld = false
	m.writer = nil
	k.unlock()
}

//go:norace
func (m *RWMutexModel) Busy() bool { return m.wheld || m.readers > 0 || m.pendingW > 0 }

// Held reports whether some task is inside a critical section of the lock right now (waiters do not count).
//
//go:norace
func (m *RWMutexModel) Held() bool { return m.wheld || m.readers > 0 }

type WaitGroupModel struct {
	n int
}

type waitWG struct{ m *WaitGroupModel }

//go:norace
func (w waitWG) Ready(*Task) bool { return w.m.n <= 0 }
func (w waitWG) Describe() string { return fmt.Sprintf("WaitGroup(counter=%d)", w.m.n) }

//go:norace
func (m *WaitGroupModel) Add(d int) {
	k := kptr.Load()
	k.lock()
	m.n += d
	neg := m.n < 0
	k.unlock()
	if neg {
		panic("simsync: negative WaitGroup counter")
	}
}

//go:norace
func (m *WaitGroupModel) Wait(t *Task) {
	k := kptr.Load()
	for {
		k.lock()
		done := m.n <= 0
		k.unlock()
		if done {
			return
		}
		park(t, "wgwait", waitWG{m})
	}
}

// FlagWait parks the task until f is set.
func FlagWait(kind string, f *Flag) {
	t := Current()
	if t == nil {
		panic("simrt.FlagWait outside a task")
	}
	for !f.IsSet() {
		park(t, kind, f)
	}
}
