package simrt

import (
	"cmp"
	"sort"
	"sync/atomic"
)

func Bind0(f func()) func()                         { return f }
func Bind1[A any](f func(A), a A) func()            { return func() { f(a) } }
func Bind2[A, B any](f func(A, B), a A, b B) func() { return func() { f(a, b) } }
func Bind3[A, B, C any](f func(A, B, C), a A, b B, c C) func() {
	return func() { f(a, b, c) }
}
func Bind4[A, B, C, D any](f func(A, B, C, D), a A, b B, c C, d D) func() {
	return func() { f(a, b, c, d) }
}
func Bind5[A, B, C, D, E any](f func(A, B, C, D, E), a A, b B, c C, d D, e E) func() {
	return func() { f(a, b, c, d, e) }
}

// SortedKeys returns the keys of m in ascending order (canonical iteration order for rewritten map ranges).
func SortedKeys[K cmp.Ordered, V any](m map[K]V) []K {
	keys := make([]K, 0, len(m))
	for k := range m {
		keys = append(keys, k)
	}
	sort.Slice(keys, func(i, j int) bool { return keys[i] < keys[j] })
	return keys
}

var stampCtr atomic.Uint64

// Stamp returns the next value of a global event sequence counter (for ordering recorded history events).
func Stamp() uint64 { return stampCtr.Add(1) }

// ResetStamp restarts the counter for a new run.
func ResetStamp() { stampCtr.Store(0) }
