//go:build race

package simrt

import (
	"runtime"
	"unsafe"
)

const RaceEnabled = true

func raceDisable()                 { runtime.RaceDisable() }
func raceEnable()                  { runtime.RaceEnable() }
func raceAcquire(p unsafe.Pointer) { runtime.RaceAcquire(p) }
func raceRelease(p unsafe.Pointer) { runtime.RaceReleaseMerge(p) }
