package simrt

import (
	"bytes"
	"fmt"
	"hash/fnv"
	"os"
	"runtime"
	"sort"
	"strconv"
	"strings"
	"sync"
	"sync/atomic"
	"time"
	"unsafe"
)

// Chooser is the single source of every choice in a run (backed by rapid in the harnesses).
type Chooser interface {
	Intn(label string, n int) int
}

const (
	stCreated int32 = iota
	stParked
	stRunning
	stDone
)

// Waitable is something a parked task waits for. Ready is evaluated by the scheduler at quiescence with the
// kernel lock held.
type Waitable interface {
	Ready(t *Task) bool
	Describe() string
}

type alwaysReady struct{}

func (alwaysReady) Ready(*Task) bool { return true }
func (alwaysReady) Describe() string { return "yield" }

// Flag is a one-shot Waitable set by a timer or by the harness.
type Flag struct {
	v    atomic.Bool
	What string
}

func (f *Flag) Ready(*Task) bool { return f.v.Load() }
func (f *Flag) Describe() string { return f.What }
func (f *Flag) Set()             { f.v.Store(true) }
func (f *Flag) IsSet() bool      { return f.v.Load() }

// Task is a goroutine under kernel control.
type Task struct {
	ID             int
	Name           string
	Node           string
	goid           int64
	state          atomic.Int32
	wake           chan struct{}
	kind           string
	wait           Waitable
	Parent         *Task
	abort          atomic.Bool
	steps          int
	selN, selStart int
}

func (t *Task) String() string { return fmt.Sprintf("%s#%d", t.Name, t.ID) }

const maxTasks = 1 << 14

// Kernel is the cooperative scheduler. One per run.
type Kernel struct {
	ch      Chooser
	mu      sync.Mutex // kernel lock: model state and task table
	tasks   [maxTasks]*Task
	ntasks  atomic.Int32
	running atomic.Int32
	quiet   chan struct{} // signalled (non-blocking) whenever running drops to 0
	aborted atomic.Bool
	active  atomic.Bool

	Steps       int
	Snapshots   int
	SchedHash   uint64
	Trace       []string // last N scheduling decisions (ring)
	traceOn     bool
	Panics      []string
	TimerBias   int  // 1 in TimerBias chance that a pending timer fires while tasks are enabled (0 = never)
	FIFO        bool // deterministic lowest-id policy instead of drawn choice
	InfraErr    string
	raceToken   int64
	schedGoid   int64
	lockSeq     int
	StrictQuiet bool
	// Starve, if set, marks tasks that are scheduled only when nothing else (no other task, no due timer) can run:
	// a stalled thread / slow node fault. Time still does not advance past them.
	Starve  func(t *Task) bool
	Starved int
}

// K is the kernel of the current run (nil when no kernel-controlled run is active).
var kptr atomic.Pointer[Kernel]

// Active returns the kernel of the current run, or nil.
func Active() *Kernel { return kptr.Load() }

var goidTable [1 << 14]atomic.Pointer[Task]

func goid() int64 {
	var buf [40]byte
	n := runtime.Stack(buf[:], false)
	// "goroutine 123 ["
	s := buf[10:n]
	i := bytes.IndexByte(s, ' ')
	if i < 0 {
		return -1
	}
	v, _ := strconv.ParseInt(string(s[:i]), 10, 64)
	return v
}

// NewKernel starts a new kernel-controlled run; the calling goroutine becomes the scheduler.
func NewKernel(ch Chooser) *Kernel {
	k := &Kernel{ch: ch, quiet: make(chan struct{}, 1), TimerBias: 12}
	k.schedGoid = goid()
	k.traceOn = os.Getenv("VERIF_TRACE") != ""
	k.StrictQuiet = os.Getenv("SIMRT_STRICT") != ""
	for i := range goidTable {
		goidTable[i].Store(nil)
	}
	k.active.Store(true)
	kptr.Store(k)
	return k
}

// Current returns the task of the calling goroutine, or nil.
//
//go:norace
func Current() *Task {
	k := kptr.Load()
	if k == nil || !k.active.Load() {
		return nil
	}
	g := goid()
	for i := 0; i < 64; i++ {
		t := goidTable[(int(g)+i)&(len(goidTable)-1)].Load()
		if t == nil {
			return nil
		}
		if t.goid == g {
			return t
		}
	}
	return nil
}

//go:norace
func register(t *Task) {
	g := goid()
	t.goid = g
	for i := 0; i < 64; i++ {
		slot := &goidTable[(int(g)+i)&(len(goidTable)-1)]
		if slot.CompareAndSwap(nil, t) {
			return
		}
	}
	panic("simrt: goid table full")
}

// Token identifies a task between Spawn (in the parent) and Born (in the child).
type Token struct{ t *Task }

// Spawn allocates the task for a `go` statement; it runs in the parent, before the goroutine starts.
//
//go:norace
func Spawn() Token {
	k := kptr.Load()
	if k == nil || !k.active.Load() {
		return Token{}
	}
	raceDisable()
	parent := Current()
	k.mu.Lock()
	n := int(k.ntasks.Load())
	if n >= maxTasks {
		k.mu.Unlock()
		raceEnable()
		panic("simrt: too many tasks")
	}
	t := &Task{ID: n, wake: make(chan struct{}, 1), Parent: parent}
	if parent != nil {
		t.Name = parent.Name + "." + strconv.Itoa(parent.steps)
		t.Node = parent.Node
		parent.steps++
	} else {
		t.Name = "t" + strconv.Itoa(n)
	}
	t.state.Store(stCreated)
	k.tasks[n] = t
	k.ntasks.Store(int32(n + 1))
	k.running.Add(1) // counted as running until it parks in Born
	k.mu.Unlock()
	raceEnable()
	return Token{t}
}

// Born is the first statement of a task goroutine: it registers and parks until first scheduled.
//
//go:norace
func Born(tok Token) {
	if tok.t == nil {
		return
	}
	raceDisable()
	register(tok.t)
	raceEnable()
	// a task aborted before it ever ran has no deferred Died yet: end the goroutine here
	defer func() {
		if r := recover(); r != nil {
			if _, ok := r.(abortSignal); ok {
				raceDisable()
				tok.t.state.Store(stDone)
				kptr.Load().runDec()
				raceEnable()
				runtime.Goexit()
			}
			panic(r)
		}
	}()
	park(tok.t, "start", alwaysReady{})
}

// Died is deferred in every task goroutine.
//
//go:norace
func Died(tok Token) {
	t := tok.t
	if t == nil {
		return
	}
	k := kptr.Load()
	if r := recover(); r != nil {
		if _, ok := r.(abortSignal); !ok {
			buf := make([]byte, 4096)
			n := runtime.Stack(buf, false)
			raceDisable()
			k.mu.Lock()
			k.Panics = append(k.Panics, fmt.Sprintf("task %s panicked: %v\n%s", t, r, buf[:n]))
			k.mu.Unlock()
			raceEnable()
		}
	}
	raceRelease(unsafe.Pointer(&k.raceToken))
	raceDisable()
	t.state.Store(stDone)
	k.runDec()
	raceEnable()
}

type abortSignal struct{}

//go:norace
func (k *Kernel) runDec() {
	if k.running.Add(-1) == 0 {
		select {
		case k.quiet <- struct{}{}:
		default:
		}
	}
}

// park blocks the calling task until the scheduler releases it (which it does only when w is ready).
//
//go:norace
func park(t *Task, kind string, w Waitable) {
	k := kptr.Load()
	if k.aborted.Load() {
		panic(abortSignal{})
	}
	// everything this task did so far happens-before what the scheduler (and the oracles it runs) does next;
	// nothing flows the other way, so two tasks are never ordered by the kernel
	raceRelease(unsafe.Pointer(&k.raceToken))
	raceDisable()
	t.kind = kind
	t.wait = w
	t.state.Store(stParked)
	k.runDec()
	<-t.wake
	raceEnable()
	if k.aborted.Load() {
		panic(abortSignal{})
	}
}

// Yield is a schedule point for the calling task; a no-op outside a kernel run.
func Yield(kind string) {
	t := Current()
	if t == nil {
		return
	}
	park(t, kind, alwaysReady{})
}

// Park blocks the calling task until w is ready and the scheduler picks it.
func Park(kind string, w Waitable) {
	t := Current()
	if t == nil {
		panic("simrt.Park outside a task: " + kind)
	}
	park(t, kind, w)
}

// Lock/Unlock the kernel lock for model state (used by simsync models).
//
//go:norace
func (k *Kernel) lock() { raceDisable(); k.mu.Lock() }

//go:norace
func (k *Kernel) unlock() { k.mu.Unlock(); raceEnable() }

// Go starts fn as a new task (harness actors). Must be called from the scheduler goroutine or a task.
//
//go:norace
func (k *Kernel) Go(name, node string, fn func()) *Task {
	tok := Spawn()
	tok.t.Name = name
	tok.t.Node = node
	go func(tok Token) {
		Born(tok)
		defer Died(tok)
		fn()
	}(tok)
	return tok.t
}

// ---------------------------------------------------------------------------------------------------------

var waitingStates = []string{
	"chan receive", "chan send", "select", "semacquire", "sync.Mutex.Lock", "sync.RWMutex.RLock",
	"sync.RWMutex.Lock", "sync.Cond.Wait", "sync.WaitGroup.Wait", "IO wait", "sleep", "finalizer wait",
	"GC ", "force gc", "debug call", "trace reader", "timer goroutine (idle)", "sync.Once.Do", "wait for debug call",
}

// quiescentSnapshot reports whether every goroutine except the caller is in a waiting state.
//
//go:norace
func (k *Kernel) quiescentSnapshot(buf *[]byte) bool {
	k.Snapshots++
	for {
		n := runtime.Stack(*buf, true)
		if n < len(*buf) {
			*buf = (*buf)[:n]
			break
		}
		*buf = make([]byte, 2*len(*buf))
	}
	data := *buf
	*buf = (*buf)[:cap(*buf)]
	ok := true
	for len(data) > 0 {
		// each goroutine block starts with "goroutine N [state...]:\n"
		if !bytes.HasPrefix(data, []byte("goroutine ")) {
			i := bytes.Index(data, []byte("\n\ngoroutine "))
			if i < 0 {
				break
			}
			data = data[i+2:]
			continue
		}
		eol := bytes.IndexByte(data, '\n')
		if eol < 0 {
			break
		}
		hdr := data[:eol]
		rest := data[eol+1:]
		next := bytes.Index(rest, []byte("\n\ngoroutine "))
		var body []byte
		if next < 0 {
			body = rest
			data = nil
		} else {
			body = rest[:next]
			data = rest[next+2:]
		}
		lb := bytes.IndexByte(hdr, '[')
		rb := bytes.LastIndexByte(hdr, ']')
		if lb < 0 || rb < lb {
			continue
		}
		idStr := string(hdr[len("goroutine ") : lb-1])
		id, _ := strconv.ParseInt(idStr, 10, 64)
		if id == k.schedGoid {
			continue
		}
		state := string(hdr[lb+1 : rb])
		waiting := false
		for _, w := range waitingStates {
			if strings.HasPrefix(state, w) {
				waiting = true
				break
			}
		}
		if !waiting && strings.HasPrefix(state, "syscall") {
			// the signal-handling goroutine sits in a syscall forever
			if bytes.HasPrefix(body, []byte("os/signal.")) || bytes.Contains(body, []byte("os/signal.signal_recv")) {
				waiting = true
			}
		}
		if !waiting {
			ok = false
			break
		}
		if strings.HasPrefix(state, "sleep") || strings.HasPrefix(state, "IO wait") {
			if bytes.Contains(body, []byte("simrt.Born")) || bytes.Contains(body, []byte("simrt.Died")) {
				k.InfraErr = "a task goroutine is in real " + state + " (un-swapped sleep or socket in code under test):\n" + string(body)
			}
		}
	}
	return ok
}

var snapBuf = make([]byte, 1<<20)

// waitQuiescent returns when every task is parked in the kernel (fast path), or every goroutine in the process
// is blocked (a task is blocked in a native operation: channel, WaitGroup, ...).
//
//go:norace
func (k *Kernel) waitQuiescent() {
	backoff := 40 * time.Microsecond
	spins := 0
	for {
		if k.running.Load() == 0 {
			if !k.StrictQuiet {
				return
			}
			if k.quiescentSnapshot(&snapBuf) {
				return
			}
			runtime.Gosched()
			continue
		}
		if spins < 200 {
			spins++
			runtime.Gosched()
			continue
		}
		tm := time.NewTimer(backoff)
		select {
		case <-k.quiet:
			tm.Stop()
			continue
		case <-tm.C:
		}
		if k.running.Load() == 0 {
			continue
		}
		if k.quiescentSnapshot(&snapBuf) {
			// double check: a second snapshot must agree (guards against a goroutine that was between states)
			if k.running.Load() == 0 || k.quiescentSnapshot(&snapBuf) {
				return
			}
		}
		if backoff < 2*time.Millisecond {
			backoff *= 2
		}
	}
}

// RunResult says how a Run call ended.
type RunResult struct {
	Steps     int
	Stuck     bool     // no enabled event but unfinished tasks
	StuckInfo []string // per stuck task: what it waits for
	Budget    bool     // step budget exhausted
	Stopped   bool     // stop() returned true
}

// Run is the scheduler loop (//go:norace: it reads the park descriptors the tasks wrote; the hand-off is ordered by
// the kernel's own channel protocol, which is deliberately hidden from the race detector).
// It executes on the calling (harness) goroutine. atQuiet, if non-nil, is called at
// every quiescent instant before the next event is chosen (invariants); stop ends the loop when it returns true.
func (k *Kernel) Run(maxSteps int, atQuiet func(), stop func() bool) RunResult {
	res := RunResult{}
	var enabled, starved []*Task
	for {
		k.waitQuiescent()
		if k.InfraErr != "" {
			return res
		}
		raceAcquire(unsafe.Pointer(&k.raceToken))
		if atQuiet != nil {
			atQuiet()
		}
		if stop != nil && stop() {
			res.Stopped = true
			return res
		}
		if res.Steps >= maxSteps {
			res.Budget = true
			return res
		}
		k.lock()
		enabled = enabled[:0]
		starved = starved[:0]
		n := int(k.ntasks.Load())
		unfinished := 0
		for i := 0; i < n; i++ {
			t := k.tasks[i]
			s := t.state.Load()
			if s == stDone {
				continue
			}
			unfinished++
			if s == stParked && t.wait.Ready(t) {
				if k.Starve != nil && k.Starve(t) {
					starved = append(starved, t)
				} else {
					enabled = append(enabled, t)
				}
			}
		}
		k.unlock()
		nextAt, hasTimer := C.NextAt()
		due := hasTimer && nextAt <= C.Elapsed()
		if len(enabled) == 0 && !due && len(starved) > 0 {
			enabled = append(enabled, starved...)
		} else if len(starved) > 0 {
			k.Starved++
		}
		if len(enabled) == 0 && !hasTimer {
			if unfinished > 0 {
				res.Stuck = true
				res.StuckInfo = k.describeUnfinished()
			}
			return res
		}
		res.Steps++
		k.Steps++
		// A timer that is due now competes with the runnable tasks like one more task. A timer in the future fires
		// when nothing is runnable, or - with probability 1/TimerBias - earlier (the node is slow relative to the clock).
		fireTimer := false
		if len(enabled) == 0 {
			fireTimer = true
		} else if due && !k.FIFO {
			fireTimer = k.ch.Intn("due?", len(enabled)+1) == len(enabled)
		} else if hasTimer && k.TimerBias > 0 && !k.FIFO {
			fireTimer = k.ch.Intn("timer?", k.TimerBias) == k.TimerBias-1
		}
		if fireTimer {
			k.note("timer", -1)
			C.FireNext(1 << 62)
			continue
		}
		var t *Task
		if k.FIFO || len(enabled) == 1 {
			t = enabled[0]
		} else {
			t = enabled[k.ch.Intn("task", len(enabled))]
		}
		if t.kind == "select" && t.selN > 1 {
			if k.FIFO {
				t.selStart = 0
			} else {
				t.selStart = k.ch.Intn("selstart", t.selN)
			}
		}
		k.note(t.kind, t.ID)
		k.release(t)
	}
}

//go:norace
func (k *Kernel) release(t *Task) {
	raceDisable()
	k.running.Add(1)
	t.state.Store(stRunning)
	t.wake <- struct{}{}
	raceEnable()
}

//go:norace
func (k *Kernel) note(kind string, id int) {
	h := fnv.New64a()
	var b [8]byte
	for i := 0; i < 8; i++ {
		b[i] = byte(k.SchedHash >> (8 * i))
	}
	h.Write(b[:])
	h.Write([]byte(kind))
	h.Write([]byte{byte(id), byte(id >> 8)})
	k.SchedHash = h.Sum64()
	if k.traceOn {
		k.Trace = append(k.Trace, fmt.Sprintf("%d:%s:%d", k.Steps, kind, id))
	}
}

//go:norace
func (k *Kernel) describeUnfinished() []string {
	var out []string
	k.lock()
	n := int(k.ntasks.Load())
	for i := 0; i < n; i++ {
		t := k.tasks[i]
		switch t.state.Load() {
		case stParked:
			out = append(out, fmt.Sprintf("%s parked at %s on %s", t, t.kind, t.wait.Describe()))
		case stRunning:
			out = append(out, fmt.Sprintf("%s blocked in a native operation", t))
		case stCreated:
			out = append(out, fmt.Sprintf("%s not started", t))
		}
	}
	k.unlock()
	sort.Strings(out)
	return out
}

// Unfinished returns the number of tasks that have not ended.
//
//go:norace
func (k *Kernel) Unfinished() int {
	n := int(k.ntasks.Load())
	c := 0
	for i := 0; i < n; i++ {
		if k.tasks[i].state.Load() != stDone {
			c++
		}
	}
	return c
}

// NativeBlockedStacks returns the stacks of task goroutines that are blocked outside the kernel.
func (k *Kernel) NativeBlockedStacks() string {
	buf := make([]byte, 1<<20)
	n := runtime.Stack(buf, true)
	var out []string
	for _, blk := range strings.Split(string(buf[:n]), "\n\n") {
		if strings.Contains(blk, "simrt.Died") && !strings.Contains(blk, "simrt.park") {
			out = append(out, blk)
		}
	}
	return strings.Join(out, "\n\n")
}

// Shutdown ends the run: parked tasks are released with an abort signal so that their goroutines unwind.
// Tasks blocked natively are leaked (they stay blocked forever and cost only memory).
//
//go:norace
func (k *Kernel) Shutdown() {
	k.aborted.Store(true)
	n := int(k.ntasks.Load())
	for i := 0; i < n; i++ {
		t := k.tasks[i]
		if t.state.Load() == stParked {
			k.release(t)
		}
	}
	// give them a moment to unwind; they may park again (abort panics immediately) or finish
	deadline := time.Now().Add(200 * time.Millisecond)
	for k.running.Load() > 0 && time.Now().Before(deadline) {
		runtime.Gosched()
	}
	k.active.Store(false)
	kptr.Store(nil)
}

// Quiesce waits until every other goroutine of the process is blocked (used by the discrete-event simulator after
// a step that may have started asynchronous helpers, e.g. the executer's publish goroutine).
func Quiesce() {
	k := &Kernel{schedGoid: goid()}
	for i := 0; i < 200000; i++ {
		if k.quiescentSnapshot(&snapBuf) {
			return
		}
		runtime.Gosched()
	}
	panic("simrt.Quiesce: goroutines keep running")
}
