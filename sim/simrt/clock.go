// Package simrt is the simulation runtime: a discrete-event clock, the single source of choices, and (kernel.go)
// a cooperative scheduler over real goroutines. Code under test reaches it only through the sim* facade
// packages that the build overlay swaps in for time, sync, context, errgroup, math/rand, uuid and ratelimit.
package simrt

import (
	"container/heap"
	"sync"
	"time"
)

// Epoch is the simulated wall-clock origin. A fixed, recent-looking instant so that uint32 unix times work.
var Epoch = time.Unix(1_700_000_000, 0)

// Timer is a pending simulated timer event.
type Timer struct {
	at      time.Duration
	seq     uint64
	idx     int
	fn      func()
	period  time.Duration
	stopped bool
	Owner   string // diagnostic
}

type timerHeap []*Timer

//go:norace
func (h timerHeap) Len() int { return len(h) }

//go:norace
func (h timerHeap) Less(i, j int) bool {
	if h[i].at != h[j].at {
		return h[i].at < h[j].at
	}
	return h[i].seq < h[j].seq
}

//go:norace
func (h timerHeap) Swap(i, j int) { h[i], h[j] = h[j], h[i]; h[i].idx = i; h[j].idx = j }

//go:norace
func (h *timerHeap) Push(x interface{}) { t := x.(*Timer); t.idx = len(*h); *h = append(*h, t) }

//go:norace
func (h *timerHeap) Pop() interface{} {
	old := *h
	n := len(old)
	t := old[n-1]
	old[n-1] = nil
	t.idx = -1
	*h = old[:n-1]
	return t
}

// Clock is the simulated clock. One global instance (C) is used by the facades; ResetClock starts a new run.
// hiddenMutex is a mutex whose acquire/release the race detector does not see. The clock is shared by every task of
// a run; if its lock were visible, two tasks that merely created or stopped a timer (every context.WithTimeout does)
// would count as synchronised with each other and genuine races between them would go unreported. The functions of
// this file are excluded from race instrumentation for the same reason (the clock's own fields are only ever touched
// under the lock).
type hiddenMutex struct{ m sync.Mutex }

//go:norace
func (h *hiddenMutex) Lock() { raceDisable(); h.m.Lock(); raceEnable() }

//go:norace
func (h *hiddenMutex) Unlock() { raceDisable(); h.m.Unlock(); raceEnable() }

type Clock struct {
	mu     hiddenMutex
	now    time.Duration
	seq    uint64
	timers timerHeap
	skew   func() time.Duration // optional per-caller skew (set by a harness)
}

var C = &Clock{}

//go:norace
func ResetClock() {
	C.mu.Lock()
	C.now = 0
	C.seq = 0
	C.timers = nil
	C.skew = nil
	C.mu.Unlock()
}

// SetSkew installs a function returning the offset to add to Now() for the current caller (e.g. per node).
//
//go:norace
func (c *Clock) SetSkew(f func() time.Duration) { c.mu.Lock(); c.skew = f; c.mu.Unlock() }

//go:norace
func (c *Clock) Elapsed() time.Duration { c.mu.Lock(); defer c.mu.Unlock(); return c.now }

//go:norace
func (c *Clock) Now() time.Time {
	c.mu.Lock()
	d := c.now
	sk := c.skew
	c.mu.Unlock()
	if sk != nil {
		d += sk()
	}
	return Epoch.Add(d)
}

// NowTrue ignores skew.
//
//go:norace
func (c *Clock) NowTrue() time.Time { c.mu.Lock(); defer c.mu.Unlock(); return Epoch.Add(c.now) }

//go:norace
func (c *Clock) AfterFunc(d time.Duration, period time.Duration, fn func()) *Timer {
	if d < 0 {
		d = 0
	}
	c.mu.Lock()
	defer c.mu.Unlock()
	c.seq++
	t := &Timer{at: c.now + d, seq: c.seq, fn: fn, period: period}
	heap.Push(&c.timers, t)
	return t
}

//go:norace
func (c *Clock) Stop(t *Timer) bool {
	c.mu.Lock()
	defer c.mu.Unlock()
	if t.stopped || t.idx < 0 {
		t.stopped = true
		return false
	}
	t.stopped = true
	heap.Remove(&c.timers, t.idx)
	return true
}

//go:norace
func (c *Clock) Reset(t *Timer, d time.Duration) bool {
	c.mu.Lock()
	defer c.mu.Unlock()
	active := !t.stopped && t.idx >= 0
	if active {
		heap.Remove(&c.timers, t.idx)
	}
	t.stopped = false
	c.seq++
	t.at = c.now + d
	t.seq = c.seq
	heap.Push(&c.timers, t)
	return active
}

// NextAt returns the instant of the earliest pending timer.
//
//go:norace
func (c *Clock) NextAt() (time.Duration, bool) {
	c.mu.Lock()
	defer c.mu.Unlock()
	if len(c.timers) == 0 {
		return 0, false
	}
	return c.timers[0].at, true
}

// Pending is the number of pending timers.
//
//go:norace
func (c *Clock) Pending() int { c.mu.Lock(); defer c.mu.Unlock(); return len(c.timers) }

// FireNext advances the clock to the earliest timer (if it is not after limit) and runs it. Returns false if
// there was none within the limit; in that case the clock is moved to limit.
//
//go:norace
func (c *Clock) FireNext(limit time.Duration) bool {
	c.mu.Lock()
	if len(c.timers) == 0 || c.timers[0].at > limit {
		if limit > c.now {
			c.now = limit
		}
		c.mu.Unlock()
		return false
	}
	t := heap.Pop(&c.timers).(*Timer)
	if t.at > c.now {
		c.now = t.at
	}
	if t.period > 0 {
		// like Go's runtime timers: a periodic timer that fires late (clock jump, stalled process) keeps its phase;
		// the ticks in between are dropped, the next one is the first multiple of the period after now
		late := c.now - t.at
		c.seq++
		t.at += t.period * (1 + late/t.period)
		t.seq = c.seq
		heap.Push(&c.timers, t)
	}
	fn := t.fn
	c.mu.Unlock()
	fn()
	return true
}

// AdvanceTo runs every timer due up to and including instant d, then sets the clock to d.
//
//go:norace
func (c *Clock) AdvanceTo(d time.Duration) {
	for c.FireNext(d) {
	}
}

// Jump moves the clock forward by d without firing the timers in between one by one in order first; due timers
// then fire at the new instant (models a clock jump as seen by the process).
//
//go:norace
func (c *Clock) Jump(d time.Duration) {
	c.mu.Lock()
	c.now += d
	c.mu.Unlock()
}
