package refmodel

// Reference transcription of the Lisk-BFT counting rules (DESIGN A.1, LIP-0058). Deliberately naive and
// persistent: the state after a block is computed from the state after its parent and nothing else, so that every
// branch of a fork tree has its own value. Shares no code with pkg/consensus/liskbft.

import "sort"

// BFTHeader is what the rules read from a block header.
type BFTHeader struct {
	Height             uint32
	Generator          string // address bytes as string
	MaxHeightGenerated uint32
	MaxHeightPrevoted  uint32
	CommitHeight       uint32 // aggregate commit height
	CommitEmpty        bool   // aggregate commit has neither bits nor signature
}

// BFTParams is one parameter set, valid from height From.
type BFTParams struct {
	From                 uint32
	PrevoteThreshold     uint64
	PrecommitThreshold   uint64
	CertificateThreshold uint64
	Weights              map[string]uint64 // BFT validators (weight > 0)
}

func (p *BFTParams) total() uint64 {
	t := uint64(0)
	for _, w := range p.Weights {
		t += w
	}
	return t
}

// NewBFTParams builds a parameter set with the protocol's prevote threshold floor(2W/3)+1.
func NewBFTParams(from uint32, precommit, certificate uint64, weights map[string]uint64) *BFTParams {
	p := &BFTParams{From: from, PrecommitThreshold: precommit, CertificateThreshold: certificate, Weights: map[string]uint64{}}
	for a, w := range weights {
		if w > 0 {
			p.Weights[a] = w
		}
	}
	p.PrevoteThreshold = 2*p.total()/3 + 1
	return p
}

// Legal reports whether the thresholds are inside [floor(W/3)+1, W] and the set fits the batch size.
func (p *BFTParams) Legal(batch int) bool {
	w := p.total()
	if len(p.Weights) > batch || w == 0 {
		return false
	}
	return p.PrecommitThreshold >= w/3+1 && p.PrecommitThreshold <= w && p.CertificateThreshold >= w/3+1 && p.CertificateThreshold <= w
}

func (p *BFTParams) sameAs(q *BFTParams) bool {
	if p.PrecommitThreshold != q.PrecommitThreshold || p.CertificateThreshold != q.CertificateThreshold || len(p.Weights) != len(q.Weights) {
		return false
	}
	for a, w := range p.Weights {
		if q.Weights[a] != w {
			return false
		}
	}
	return true
}

type blockVotes struct {
	BFTHeader
	Prevote, Precommit uint64
}

type voteInfo struct {
	MinActive        uint32
	LargestPrecommit uint32
}

// BFTState is the consensus state after some block.
type BFTState struct {
	Batch                                    int
	Tip                                      uint32
	MaxHeightPrevoted, MaxHeightPrecommitted uint32
	MaxHeightCertified                       uint32
	window                                   []blockVotes // ascending height, at most 3*batch entries
	votes                                    map[string]voteInfo
	params                                   []*BFTParams // ascending From
}

// GenesisBFTState is the state after the genesis block at the given height, with the first parameter set.
func GenesisBFTState(batch int, genesisHeight uint32, first *BFTParams) *BFTState {
	s := &BFTState{Batch: batch, Tip: genesisHeight, MaxHeightPrevoted: genesisHeight, MaxHeightPrecommitted: genesisHeight, MaxHeightCertified: genesisHeight, votes: map[string]voteInfo{}}
	s.setParams(first)
	return s
}

func (s *BFTState) clone() *BFTState {
	c := *s
	c.window = append([]blockVotes(nil), s.window...)
	c.votes = make(map[string]voteInfo, len(s.votes))
	for k, v := range s.votes {
		c.votes[k] = v
	}
	c.params = append([]*BFTParams(nil), s.params...)
	return &c
}

// ParamsAt is the parameter set with the largest From <= h (nil if none).
func (s *BFTState) ParamsAt(h uint32) *BFTParams {
	var best *BFTParams
	for _, p := range s.params {
		if p.From <= h {
			best = p
		}
	}
	return best
}

// NextParamsAfter returns the From of the first parameter set with From > h, if any.
func (s *BFTState) NextParamsAfter(h uint32) (uint32, bool) {
	for _, p := range s.params {
		if p.From > h {
			return p.From, true
		}
	}
	return 0, false
}

// ExistParams reports whether a parameter set starts exactly at h.
func (s *BFTState) ExistParams(h uint32) bool {
	for _, p := range s.params {
		if p.From == h {
			return true
		}
	}
	return false
}

func (s *BFTState) setParams(p *BFTParams) {
	if cur := s.ParamsAt(s.Tip + 1); cur != nil && cur.sameAs(p) {
		return // identical set: no-op
	}
	np := *p
	np.From = s.Tip + 1
	// replace a set that starts at the same height (cannot normally happen), else append
	s.params = append(s.params, &np)
	sort.Slice(s.params, func(i, j int) bool { return s.params[i].From < s.params[j].From })
	nv := map[string]voteInfo{}
	for a := range np.Weights {
		if old, ok := s.votes[a]; ok {
			nv[a] = old
		} else {
			nv[a] = voteInfo{MinActive: s.Tip + 1, LargestPrecommit: s.Tip}
		}
	}
	s.votes = nv
}

func (s *BFTState) find(h uint32) *blockVotes {
	for i := range s.window {
		if s.window[i].Height == h {
			return &s.window[i]
		}
	}
	return nil
}

// Apply returns the state after block hd (which must extend the tip); change, if not nil, is the parameter set the
// block's execution installs (it takes effect at hd.Height+1).
func (s *BFTState) Apply(hd BFTHeader, change *BFTParams) *BFTState {
	n := s.clone()
	n.Tip = hd.Height
	n.window = append(n.window, blockVotes{BFTHeader: hd})
	if len(n.window) > 3*n.Batch {
		n.window = n.window[len(n.window)-3*n.Batch:]
	}
	oldest := n.window[0].Height
	g := hd.Generator
	if vi, active := n.votes[g]; active && hd.MaxHeightGenerated < hd.Height {
		// height the generator did not prevote: walk back over its own earlier blocks on this chain
		notPrevoted := hd.MaxHeightGenerated
		for {
			b := n.find(notPrevoted)
			if b == nil {
				if notPrevoted < oldest {
					notPrevoted = oldest - 1
				}
				break
			}
			if b.Generator != g || b.MaxHeightGenerated >= notPrevoted {
				break
			}
			notPrevoted = b.MaxHeightGenerated
		}
		minPrecommit := max3(vi.MinActive, notPrevoted+1, vi.LargestPrecommit+1)
		first := true
		for h := hd.Height; h >= minPrecommit && h >= oldest; h-- {
			b := n.find(h)
			p := n.ParamsAt(h)
			if b != nil && p != nil && b.Prevote >= p.PrevoteThreshold {
				b.Precommit += p.Weights[g]
				if first {
					vi.LargestPrecommit = h
					first = false
				}
			}
			if h == 0 {
				break
			}
		}
		n.votes[g] = vi
		minPrevote := hd.MaxHeightGenerated + 1
		if vi.MinActive > minPrevote {
			minPrevote = vi.MinActive
		}
		for h := hd.Height; h >= minPrevote && h >= oldest; h-- {
			if b := n.find(h); b != nil {
				if p := n.ParamsAt(h); p != nil {
					b.Prevote += p.Weights[g]
				}
			}
			if h == 0 {
				break
			}
		}
	}
	for i := len(n.window) - 1; i >= 0; i-- {
		b := n.window[i]
		if p := n.ParamsAt(b.Height); p != nil && b.Prevote >= p.PrevoteThreshold {
			n.MaxHeightPrevoted = b.Height
			break
		}
	}
	for i := len(n.window) - 1; i >= 0; i-- {
		b := n.window[i]
		if p := n.ParamsAt(b.Height); p != nil && b.Precommit >= p.PrecommitThreshold {
			n.MaxHeightPrecommitted = b.Height
			break
		}
	}
	if !hd.CommitEmpty {
		n.MaxHeightCertified = hd.CommitHeight
	}
	// parameter sets older than the newest one at or below min(oldest window height, certified+1) are dropped
	bound := oldest
	if n.MaxHeightCertified+1 < bound {
		bound = n.MaxHeightCertified + 1
	}
	keepFrom := -1
	for i, p := range n.params {
		if p.From <= bound {
			keepFrom = i
		}
	}
	if keepFrom > 0 {
		n.params = append([]*BFTParams(nil), n.params[keepFrom:]...)
	}
	if change != nil {
		n.setParams(change)
	}
	return n
}

func max3(a, b, c uint32) uint32 {
	m := a
	if b > m {
		m = b
	}
	if c > m {
		m = c
	}
	return m
}

// Weights returns (prevote, precommit) weight of the block at height h in the window.
func (s *BFTState) WeightsAt(h uint32) (uint64, uint64, bool) {
	if b := s.find(h); b != nil {
		return b.Prevote, b.Precommit, true
	}
	return 0, 0, false
}

// WindowHeights returns the heights in the vote window, ascending.
func (s *BFTState) WindowHeights() []uint32 {
	out := make([]uint32, len(s.window))
	for i, b := range s.window {
		out[i] = b.Height
	}
	return out
}

// VoteInfo returns (minActive, largestPrecommit) of an active validator.
func (s *BFTState) VoteInfo(addr string) (uint32, uint32, bool) {
	v, ok := s.votes[addr]
	return v.MinActive, v.LargestPrecommit, ok
}

// ActiveValidators returns the addresses with vote info, sorted.
func (s *BFTState) ActiveValidators() []string {
	var out []string
	for a := range s.votes {
		out = append(out, a)
	}
	sort.Strings(out)
	return out
}

// ParamFroms returns the start heights of the stored parameter sets.
func (s *BFTState) ParamFroms() []uint32 {
	out := make([]uint32, len(s.params))
	for i, p := range s.params {
		out[i] = p.From
	}
	return out
}

// LastHeaderOf returns the most recent header by generator g inside the window.
func (s *BFTState) LastHeaderOf(g string) (BFTHeader, bool) {
	for i := len(s.window) - 1; i >= 0; i-- {
		if s.window[i].Generator == g {
			return s.window[i].BFTHeader, true
		}
	}
	return BFTHeader{}, false
}

// ---- A.2 contradiction and fork choice (LIP-0014) ---------------------------------------------------------------

// Contradicting: two distinct headers of the same generator.
func Contradicting(a, b BFTHeader) bool {
	if a.Generator != b.Generator {
		return false
	}
	first, second := a, b
	less := func(x, y BFTHeader) bool {
		if x.MaxHeightGenerated != y.MaxHeightGenerated {
			return x.MaxHeightGenerated < y.MaxHeightGenerated
		}
		if x.MaxHeightPrevoted != y.MaxHeightPrevoted {
			return x.MaxHeightPrevoted < y.MaxHeightPrevoted
		}
		return x.Height < y.Height
	}
	if less(b, a) {
		first, second = b, a
	}
	if first.MaxHeightPrevoted == second.MaxHeightPrevoted && first.Height >= second.Height {
		return true
	}
	if first.Height > second.MaxHeightGenerated {
		return true
	}
	if first.MaxHeightPrevoted > second.MaxHeightPrevoted {
		return true
	}
	return false
}
