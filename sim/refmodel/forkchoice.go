package refmodel

// Reference fork choice (LIP-0014): how a node classifies a received block against its tip. Written from the LIP's case
// list, evaluated in the LIP's order.

type FCHeader struct {
	ID                string
	PrevID            string
	Generator         string
	Height            uint32
	MaxHeightPrevoted uint32
	Slot              int // slot of the header's timestamp
}

type FCCase int

const (
	FCIdentical FCCase = iota
	FCValidSuccessor
	FCDoubleForging
	FCTieBreak
	FCDifferentChain
	FCDiscard
)

func (c FCCase) String() string {
	return [...]string{"identical block", "extends the tip", "double forging", "tie break", "better chain (sync)", "discard"}[c]
}

// Classify: tip is the node's tip; tipReceivedSlot is the slot in which the tip was received over the network (nil: it
// was not - generated locally is received in its own slot, obtained by a sync counts as timely); nowSlot is the slot of
// the moment the incoming block is received.
func Classify(tip, in FCHeader, tipReceivedSlot *int, nowSlot int) FCCase {
	if in.ID == tip.ID {
		return FCIdentical
	}
	if in.Height == tip.Height+1 && in.PrevID == tip.ID {
		return FCValidSuccessor
	}
	duplicate := in.Height == tip.Height && in.MaxHeightPrevoted == tip.MaxHeightPrevoted && in.PrevID == tip.PrevID
	if duplicate && in.Generator == tip.Generator {
		return FCDoubleForging
	}
	tipTimely := tipReceivedSlot == nil || *tipReceivedSlot == tip.Slot
	if duplicate && tip.Slot < in.Slot && !tipTimely && nowSlot == in.Slot {
		return FCTieBreak
	}
	// the order on (maxHeightPrevoted, height)
	if tip.MaxHeightPrevoted < in.MaxHeightPrevoted || (tip.MaxHeightPrevoted == in.MaxHeightPrevoted && tip.Height < in.Height) {
		return FCDifferentChain
	}
	return FCDiscard
}
