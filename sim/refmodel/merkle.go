// Package refmodel holds the executable reference definitions the oracles compare against (DESIGN Appendix A).
// They are written from the definitions, deliberately naive, and share no code or constants with the repository.
package refmodel

import (
	"bytes"
	"crypto/sha256"
	"sort"
)

func H(parts ...[]byte) []byte {
	h := sha256.New()
	for _, p := range parts {
		h.Write(p)
	}
	return h.Sum(nil)
}

var EmptyHash = H()

// ---- A.4 sparse Merkle root (LIP-0039) --------------------------------------------------------------------

type KV struct{ K, V []byte }

func bit(k []byte, i int) int { return int(k[i/8]>>(7-uint(i%8))) & 1 }

// SMTRoot is the root of the set of (key, value) pairs with non-empty values; all keys have equal length.
func SMTRoot(m map[string][]byte) []byte {
	var s []KV
	for k, v := range m {
		if len(v) > 0 {
			s = append(s, KV{[]byte(k), v})
		}
	}
	sort.Slice(s, func(i, j int) bool { return bytes.Compare(s[i].K, s[j].K) < 0 })
	return smtRoot(s, 0)
}

func smtRoot(s []KV, d int) []byte {
	switch len(s) {
	case 0:
		return EmptyHash
	case 1:
		return H([]byte{0}, s[0].K, s[0].V)
	}
	var l, r []KV
	for _, e := range s {
		if bit(e.K, d) == 0 {
			l = append(l, e)
		} else {
			r = append(r, e)
		}
	}
	return H([]byte{1}, smtRoot(l, d+1), smtRoot(r, d+1))
}

// ---- A.5 regular Merkle root (LIP-0031) -------------------------------------------------------------------

func RMTRoot(list [][]byte) []byte {
	switch len(list) {
	case 0:
		return EmptyHash
	case 1:
		return H([]byte{0}, list[0])
	}
	k := 1
	for k*2 < len(list) {
		k *= 2
	}
	return H([]byte{1}, RMTRoot(list[:k]), RMTRoot(list[k:]))
}

func RMTLeaf(x []byte) []byte { return H([]byte{0}, x) }
