// Package simerrgroup is swapped in for golang.org/x/sync/errgroup. Under the kernel every Go is a task; without
// a kernel (chainsim) the functions run inline, in call order, which is one legal schedule and deterministic.
package simerrgroup

import (
	"context"
	"sync"

	"verif/sim/simrt"
	"verif/sim/simsync"
)

type Group struct {
	wg     simsync.WaitGroup
	mu     sync.Mutex
	err    error
	cancel func()
}

func WithContext(ctx context.Context) (*Group, context.Context) {
	c, cancel := context.WithCancel(ctx)
	return &Group{cancel: cancel}, c
}

func (g *Group) record(err error) {
	if err == nil {
		return
	}
	g.mu.Lock()
	if g.err == nil {
		g.err = err
		if g.cancel != nil {
			g.cancel()
		}
	}
	g.mu.Unlock()
}

func (g *Group) Go(f func() error) {
	if simrt.Current() == nil {
		g.record(f())
		return
	}
	g.wg.Add(1)
	tok := simrt.Spawn()
	go func() {
		simrt.Born(tok)
		defer simrt.Died(tok)
		defer g.wg.Done()
		g.record(f())
	}()
}

func (g *Group) Wait() error {
	g.wg.Wait()
	if g.cancel != nil {
		g.cancel()
	}
	g.mu.Lock()
	defer g.mu.Unlock()
	return g.err
}
