// Package simhost is a simulated libp2p host: just enough of host.Host / network.Network / network.Stream /
// network.Conn for the repository's request/response protocol, rate limiter and connection gater to run on it.
// A stream is one message: NewStream + Write + Close on the sender becomes a delivery event on the simulated
// clock (latency, loss and duplication come from a pre-drawn script), and the receiver's stream handler runs as a
// new kernel task with a stream whose Conn() reports the sender's peer id and multiaddr (without /p2p part, as
// libp2p reports it). libp2p itself is not run.
package simhost

import (
	"bytes"
	"context"
	"crypto/ed25519"
	"crypto/sha256"
	"errors"
	"fmt"
	"io"
	"sync"
	"time"

	"github.com/libp2p/go-libp2p/core/connmgr"
	lcrypto "github.com/libp2p/go-libp2p/core/crypto"
	"github.com/libp2p/go-libp2p/core/host"
	"github.com/libp2p/go-libp2p/core/network"
	"github.com/libp2p/go-libp2p/core/peer"
	"github.com/libp2p/go-libp2p/core/protocol"
	ma "github.com/multiformats/go-multiaddr"

	"verif/sim/simrt"
)

// Fault is one pre-drawn network decision.
type Fault struct {
	Latency time.Duration
	Drop    bool
	Dup     bool
	DupGap  time.Duration
}

// Gater is the subset of libp2p's ConnectionGater the simulated swarm consults.
type Gater interface {
	InterceptPeerDial(p peer.ID) bool
	InterceptAddrDial(p peer.ID, a ma.Multiaddr) bool
	InterceptAccept(cma network.ConnMultiaddrs) bool
	InterceptSecured(dir network.Direction, p peer.ID, cma network.ConnMultiaddrs) bool
}

type Net struct {
	mu        sync.Mutex
	hosts     map[peer.ID]*Host
	script    []Fault
	next      int
	Stats     struct{ Sent, Dropped, Duplicated, Delivered, RefusedDial, RefusedAccept int }
	OnDeliver func(from, to peer.ID, proto protocol.ID, data []byte) []byte // optional corruption hook (returns data to deliver)
	OnSend    func(from, to peer.ID, proto protocol.ID, data []byte)        // optional observation hook, called when a message leaves
}

func NewNet(script []Fault) *Net {
	return &Net{hosts: map[peer.ID]*Host{}, script: script}
}

func (n *Net) fault() Fault {
	n.mu.Lock()
	defer n.mu.Unlock()
	if len(n.script) == 0 {
		return Fault{Latency: time.Millisecond}
	}
	f := n.script[n.next%len(n.script)]
	n.next++
	return f
}

// Host is one simulated libp2p host.
type Host struct {
	host.Host // nil: any method not implemented below panics loudly
	net       *Net
	id        peer.ID
	addr      ma.Multiaddr
	mu        sync.Mutex
	handlers  map[protocol.ID]network.StreamHandler
	conns     map[peer.ID]bool
	gater     Gater
	closed    bool
	Node      string
}

func (n *Net) NewHost(name string, ipAddr string) *Host {
	seed := sha256.Sum256([]byte("simhost-" + name))
	priv := ed25519.NewKeyFromSeed(seed[:])
	lp, _, err := lcrypto.KeyPairFromStdKey(&priv)
	if err != nil {
		panic(err)
	}
	id, err := peer.IDFromPrivateKey(lp)
	if err != nil {
		panic(err)
	}
	h := &Host{net: n, id: id, addr: ma.StringCast(ipAddr), handlers: map[protocol.ID]network.StreamHandler{}, conns: map[peer.ID]bool{}, Node: name}
	n.mu.Lock()
	n.hosts[id] = h
	n.mu.Unlock()
	return h
}

func (h *Host) SetGater(g Gater)                 { h.gater = g }
func (h *Host) ID() peer.ID                      { return h.id }
func (h *Host) Addrs() []ma.Multiaddr            { return []ma.Multiaddr{h.addr} }
func (h *Host) Addr() ma.Multiaddr               { return h.addr }
func (h *Host) Network() network.Network         { return &netView{h: h} }
func (h *Host) ConnManager() connmgr.ConnManager { return nil }
func (h *Host) Close() error                     { h.mu.Lock(); h.closed = true; h.mu.Unlock(); return nil }

func (h *Host) SetStreamHandler(pid protocol.ID, handler network.StreamHandler) {
	h.mu.Lock()
	h.handlers[pid] = handler
	h.mu.Unlock()
}

func (h *Host) RemoveStreamHandler(pid protocol.ID) {
	h.mu.Lock()
	delete(h.handlers, pid)
	h.mu.Unlock()
}

type cma struct{ local, remote ma.Multiaddr }

func (c cma) LocalMultiaddr() ma.Multiaddr  { return c.local }
func (c cma) RemoteMultiaddr() ma.Multiaddr { return c.remote }

// Dial establishes (or refuses) a connection, consulting both gaters in the order the libp2p swarm does.
func (h *Host) Dial(p peer.ID) error {
	h.net.mu.Lock()
	remote, ok := h.net.hosts[p]
	h.net.mu.Unlock()
	if !ok {
		return errors.New("simhost: unknown peer")
	}
	h.mu.Lock()
	connected := h.conns[p]
	h.mu.Unlock()
	if connected {
		return nil
	}
	if h.gater != nil {
		if !h.gater.InterceptPeerDial(p) || !h.gater.InterceptAddrDial(p, remote.addr) {
			h.net.mu.Lock()
			h.net.Stats.RefusedDial++
			h.net.mu.Unlock()
			return errors.New("simhost: dial refused by the local gater")
		}
		if !h.gater.InterceptSecured(network.DirOutbound, p, cma{h.addr, remote.addr}) {
			return errors.New("simhost: outbound connection refused by the local gater")
		}
	}
	if remote.gater != nil {
		c := cma{remote.addr, h.addr}
		if !remote.gater.InterceptAccept(c) || !remote.gater.InterceptSecured(network.DirInbound, h.id, c) {
			h.net.mu.Lock()
			h.net.Stats.RefusedAccept++
			h.net.mu.Unlock()
			return errors.New("simhost: connection refused by the remote gater")
		}
	}
	h.mu.Lock()
	h.conns[p] = true
	h.mu.Unlock()
	remote.mu.Lock()
	remote.conns[h.id] = true
	remote.mu.Unlock()
	return nil
}

func (h *Host) Connected(p peer.ID) bool {
	h.mu.Lock()
	defer h.mu.Unlock()
	return h.conns[p]
}

func (h *Host) Connect(ctx context.Context, pi peer.AddrInfo) error { return h.Dial(pi.ID) }

func (h *Host) NewStream(ctx context.Context, p peer.ID, pids ...protocol.ID) (network.Stream, error) {
	if err := ctx.Err(); err != nil {
		return nil, err
	}
	if err := h.Dial(p); err != nil {
		return nil, err
	}
	return &outStream{h: h, to: p, proto: pids[0]}, nil
}

type netView struct {
	network.Network
	h *Host
}

func (n *netView) Peers() []peer.ID {
	n.h.mu.Lock()
	defer n.h.mu.Unlock()
	var out peer.IDSlice
	for p, ok := range n.h.conns {
		if ok {
			out = append(out, p)
		}
	}
	sortIDs(out)
	return out
}

func sortIDs(s peer.IDSlice) {
	for i := 1; i < len(s); i++ {
		for j := i; j > 0 && s[j] < s[j-1]; j-- {
			s[j], s[j-1] = s[j-1], s[j]
		}
	}
}

func (n *netView) ClosePeer(p peer.ID) error {
	n.h.mu.Lock()
	delete(n.h.conns, p)
	n.h.mu.Unlock()
	n.h.net.mu.Lock()
	remote := n.h.net.hosts[p]
	n.h.net.mu.Unlock()
	if remote != nil {
		remote.mu.Lock()
		delete(remote.conns, n.h.id)
		remote.mu.Unlock()
	}
	return nil
}

func (n *netView) Connectedness(p peer.ID) network.Connectedness {
	if n.h.Connected(p) {
		return network.Connected
	}
	return network.NotConnected
}

type conn struct {
	network.Conn
	remote peer.ID
	raddr  ma.Multiaddr
	laddr  ma.Multiaddr
}

func (c *conn) RemotePeer() peer.ID           { return c.remote }
func (c *conn) RemoteMultiaddr() ma.Multiaddr { return c.raddr }
func (c *conn) LocalMultiaddr() ma.Multiaddr  { return c.laddr }

type outStream struct {
	network.Stream
	h     *Host
	to    peer.ID
	proto protocol.ID
	buf   bytes.Buffer
	done  bool
}

func (s *outStream) Write(p []byte) (int, error) { return s.buf.Write(p) }
func (s *outStream) Reset() error                { s.done = true; return nil }
func (s *outStream) Conn() network.Conn {
	s.h.net.mu.Lock()
	r := s.h.net.hosts[s.to]
	s.h.net.mu.Unlock()
	return &conn{remote: s.to, raddr: r.addr, laddr: s.h.addr}
}

// Close sends the message.
func (s *outStream) Close() error {
	if s.done {
		return nil
	}
	s.done = true
	n := s.h.net
	data := append([]byte(nil), s.buf.Bytes()...)
	f := n.fault()
	if n.OnSend != nil {
		n.OnSend(s.h.id, s.to, s.proto, data)
	}
	n.mu.Lock()
	n.Stats.Sent++
	remote := n.hosts[s.to]
	n.mu.Unlock()
	if f.Drop {
		n.mu.Lock()
		n.Stats.Dropped++
		n.mu.Unlock()
		return nil
	}
	from := s.h
	deliver := func() {
		remote.mu.Lock()
		handler := remote.handlers[s.proto]
		closed := remote.closed
		remote.mu.Unlock()
		if handler == nil || closed || !remote.Connected(from.id) {
			return
		}
		payload := data
		if n.OnDeliver != nil {
			payload = n.OnDeliver(from.id, remote.id, s.proto, payload)
		}
		n.mu.Lock()
		n.Stats.Delivered++
		n.mu.Unlock()
		in := &inStream{r: bytes.NewReader(payload), c: &conn{remote: from.id, raddr: from.addr, laddr: remote.addr}, proto: s.proto}
		if k := simrt.Active(); k != nil {
			k.Go(fmt.Sprintf("%s.handler", remote.Node), remote.Node, func() { handler(in) })
		} else {
			handler(in)
		}
	}
	simrt.C.AfterFunc(f.Latency, 0, deliver)
	if f.Dup {
		n.mu.Lock()
		n.Stats.Duplicated++
		n.mu.Unlock()
		simrt.C.AfterFunc(f.Latency+f.DupGap, 0, deliver)
	}
	return nil
}

type inStream struct {
	network.Stream
	r     *bytes.Reader
	c     *conn
	proto protocol.ID
}

func (s *inStream) Read(p []byte) (int, error) { return s.r.Read(p) }
func (s *inStream) Close() error               { return nil }
func (s *inStream) Reset() error               { return nil }
func (s *inStream) Conn() network.Conn         { return s.c }
func (s *inStream) Protocol() protocol.ID      { return s.proto }

var _ io.Reader = (*inStream)(nil)
