// overlaygen produces a `go build -overlay` file for one harness profile from /repo's current working tree:
// rewritten copies of selected repo files (import swaps, `go` statements turned into kernel tasks, multi-case
// selects turned into scheduler-mediated choices), added accessor files, and for chainsim the p2p stub package.
// It fails loudly (exit 2) on any source shape it does not know, never silently.
package main

import (
	"bytes"
	"encoding/json"
	"flag"
	"fmt"
	"go/ast"
	"go/format"
	"go/parser"
	"go/token"
	"os"
	"path/filepath"
	"sort"
	"strconv"
	"strings"
)

type fileRule struct {
	Swap      map[string]string // import path -> replacement path
	GoTasks   bool              // rewrite `go` statements into kernel tasks
	GoInline  bool              // turn `go f(x)` into a plain call (one legal schedule; only for spawns that do not rendezvous with the parent)
	Selects   bool              // rewrite multi-case selects
	MapRanges []string          // range expressions (source text) that are maps whose iteration order must be canonical
}

type profile struct {
	Files      map[string]fileRule // repo-relative file -> rule
	AddDirs    []string            // directories under /verif/sim/overlay whose tree is added to the repo tree
	ReplacePkg map[string]string   // repo-relative package dir -> overlay dir (all non-test files of the dir are dropped)
}

const (
	pTime      = "verif/sim/simtime"
	pSync      = "verif/sim/simsync"
	pCtx       = "verif/sim/simcontext"
	pErrgroup  = "verif/sim/simerrgroup"
	pRand      = "verif/sim/simrand"
	pUUID      = "verif/sim/simuuid"
	pRatelimit = "verif/sim/simratelimit"
)

func die(format string, args ...interface{}) {
	fmt.Fprintf(os.Stderr, "overlaygen: "+format+"\n", args...)
	os.Exit(2)
}

var uniq int

func main() {
	repo := flag.String("repo", "/repo", "repository root")
	verif := flag.String("verif", "/verif", "verif root")
	out := flag.String("out", "", "output directory (created)")
	prof := flag.String("profile", "", "profile name")
	flag.Parse()
	p, ok := profiles[*prof]
	if !ok {
		die("unknown profile %q", *prof)
	}
	if *out == "" {
		die("-out required")
	}
	if err := os.MkdirAll(*out, 0o755); err != nil {
		die("%v", err)
	}
	replace := map[string]string{}
	names := make([]string, 0, len(p.Files))
	for f := range p.Files {
		names = append(names, f)
	}
	sort.Strings(names)
	for i, rel := range names {
		src := filepath.Join(*repo, rel)
		dst := filepath.Join(*out, fmt.Sprintf("f%03d_%s", i, filepath.Base(rel)))
		data, err := rewrite(src, p.Files[rel])
		if err != nil {
			die("%s: %v", rel, err)
		}
		if err := os.WriteFile(dst, data, 0o644); err != nil {
			die("%v", err)
		}
		replace[src] = dst
	}
	for pkgDir, ovDir := range p.ReplacePkg {
		entries, err := os.ReadDir(filepath.Join(*repo, pkgDir))
		if err != nil {
			die("%v", err)
		}
		for _, e := range entries {
			if e.IsDir() || !strings.HasSuffix(e.Name(), ".go") || strings.HasSuffix(e.Name(), "_test.go") {
				continue
			}
			replace[filepath.Join(*repo, pkgDir, e.Name())] = ""
		}
		stub := filepath.Join(*verif, "sim", "overlay", ovDir)
		entries, err = os.ReadDir(stub)
		if err != nil {
			die("%v", err)
		}
		for _, e := range entries {
			if strings.HasSuffix(e.Name(), ".go") {
				replace[filepath.Join(*repo, pkgDir, "zz_stub_"+e.Name())] = filepath.Join(stub, e.Name())
			}
		}
	}
	for _, d := range p.AddDirs {
		root := filepath.Join(*verif, "sim", "overlay", d)
		err := filepath.Walk(root, func(path string, info os.FileInfo, err error) error {
			if err != nil {
				return err
			}
			if info.IsDir() || !strings.HasSuffix(path, ".go") {
				return nil
			}
			rel, _ := filepath.Rel(root, path)
			replace[filepath.Join(*repo, rel)] = path
			return nil
		})
		if err != nil {
			die("%v", err)
		}
	}
	b, _ := json.MarshalIndent(map[string]interface{}{"Replace": replace}, "", " ")
	if err := os.WriteFile(filepath.Join(*out, "overlay.json"), b, 0o644); err != nil {
		die("%v", err)
	}
	fmt.Println(filepath.Join(*out, "overlay.json"))
}

func rewrite(path string, rule fileRule) ([]byte, error) {
	fset := token.NewFileSet()
	f, err := parser.ParseFile(fset, path, nil, parser.ParseComments)
	if err != nil {
		return nil, err
	}
	// 1. import swaps
	swapped := map[string]bool{}
	for _, imp := range f.Imports {
		p, _ := strconv.Unquote(imp.Path.Value)
		if np, ok := rule.Swap[p]; ok {
			name := filepath.Base(p)
			if imp.Name != nil {
				name = imp.Name.Name
			}
			imp.Name = ast.NewIdent(name)
			imp.Path.Value = strconv.Quote(np)
			swapped[p] = true
		}
	}
	for p := range rule.Swap {
		if !swapped[p] {
			// not an error: the file may simply not import it (any more); but say so
			fmt.Fprintf(os.Stderr, "overlaygen: note: %s does not import %s\n", path, p)
		}
	}
	needRT := false
	var rerr error
	// 2. go statements and selects
	var visit func(n ast.Node) bool
	rewriteStmtList := func(list []ast.Stmt) {
		for i, s := range list {
			switch st := s.(type) {
			case *ast.GoStmt:
				if rule.GoInline {
					list[i] = &ast.ExprStmt{X: st.Call}
				} else if rule.GoTasks {
					ns, err := rewriteGo(st)
					if err != nil {
						rerr = fmt.Errorf("%s: %v", fset.Position(st.Pos()), err)
						return
					}
					list[i] = ns
					needRT = true
				}
			case *ast.SelectStmt:
				if rule.Selects {
					ns, changed, err := rewriteSelect(st)
					if err != nil {
						rerr = fmt.Errorf("%s: %v", fset.Position(st.Pos()), err)
						return
					}
					if changed {
						list[i] = ns
						needRT = true
					}
				}
			case *ast.LabeledStmt:
				if sel, ok := st.Stmt.(*ast.SelectStmt); ok && rule.Selects {
					ns, changed, err := rewriteSelect(sel)
					if err != nil {
						rerr = fmt.Errorf("%s: %v", fset.Position(st.Pos()), err)
						return
					}
					if changed {
						st.Stmt = ns
						needRT = true
					}
				}
			case *ast.RangeStmt:
				if len(rule.MapRanges) > 0 {
					var buf bytes.Buffer
					_ = format.Node(&buf, fset, st.X)
					for _, mr := range rule.MapRanges {
						if buf.String() == mr {
							rewriteMapRange(st)
							needRT = true
						}
					}
				}
			}
		}
	}
	visit = func(n ast.Node) bool {
		switch x := n.(type) {
		case *ast.BlockStmt:
			rewriteStmtList(x.List)
		case *ast.CaseClause:
			rewriteStmtList(x.Body)
		case *ast.CommClause:
			rewriteStmtList(x.Body)
		}
		return rerr == nil
	}
	ast.Inspect(f, visit)
	if rerr != nil {
		return nil, rerr
	}
	// any go statement left that is not directly in a statement list (e.g. `if x { go f() }` is in a block, fine)
	if rule.GoTasks {
		ast.Inspect(f, func(n ast.Node) bool {
			if g, ok := n.(*ast.GoStmt); ok {
				if !isRewrittenGo(g) {
					rerr = fmt.Errorf("%s: go statement in a position the generator does not handle", fset.Position(g.Pos()))
				}
			}
			return true
		})
		if rerr != nil {
			return nil, rerr
		}
	}
	if needRT {
		addImport(f, "simrt", "verif/sim/simrt")
	}
	var buf bytes.Buffer
	if err := format.Node(&buf, fset, f); err != nil {
		return nil, err
	}
	return buf.Bytes(), nil
}

func addImport(f *ast.File, name, path string) {
	for _, imp := range f.Imports {
		if imp.Path.Value == strconv.Quote(path) {
			return
		}
	}
	spec := &ast.ImportSpec{Name: ast.NewIdent(name), Path: &ast.BasicLit{Kind: token.STRING, Value: strconv.Quote(path)}}
	for _, d := range f.Decls {
		if gd, ok := d.(*ast.GenDecl); ok && gd.Tok == token.IMPORT {
			gd.Specs = append(gd.Specs, spec)
			if !gd.Lparen.IsValid() {
				gd.Lparen = gd.Pos()
				gd.Rparen = gd.End()
			}
			f.Imports = append(f.Imports, spec)
			return
		}
	}
	gd := &ast.GenDecl{Tok: token.IMPORT, Specs: []ast.Spec{spec}}
	f.Decls = append([]ast.Decl{gd}, f.Decls...)
	f.Imports = append(f.Imports, spec)
}

func sel(pkg, name string) ast.Expr {
	return &ast.SelectorExpr{X: ast.NewIdent(pkg), Sel: ast.NewIdent(name)}
}

func call(fun ast.Expr, args ...ast.Expr) *ast.CallExpr { return &ast.CallExpr{Fun: fun, Args: args} }

func isRewrittenGo(g *ast.GoStmt) bool {
	if len(g.Call.Args) == 0 {
		return false
	}
	c, ok := g.Call.Args[0].(*ast.CallExpr)
	if !ok {
		return false
	}
	s, ok := c.Fun.(*ast.SelectorExpr)
	if !ok {
		return false
	}
	id, ok := s.X.(*ast.Ident)
	return ok && id.Name == "simrt" && s.Sel.Name == "Spawn"
}

// go func(p T){B}(a)  ->  go func(_t simrt.Token, p T){ simrt.Born(_t); defer simrt.Died(_t); B }(simrt.Spawn(), a)
// go f(a, b)          ->  go func(_t simrt.Token, _f func()){ simrt.Born(_t); defer simrt.Died(_t); _f() }(simrt.Spawn(), simrt.Bind2(f, a, b))
func rewriteGo(g *ast.GoStmt) (ast.Stmt, error) {
	tok := ast.NewIdent("_t")
	prologue := []ast.Stmt{
		&ast.ExprStmt{X: call(sel("simrt", "Born"), tok)},
		&ast.DeferStmt{Call: call(sel("simrt", "Died"), tok)},
	}
	tokField := &ast.Field{Names: []*ast.Ident{ast.NewIdent("_t")}, Type: sel("simrt", "Token")}
	if lit, ok := g.Call.Fun.(*ast.FuncLit); ok {
		if lit.Type.Results != nil && len(lit.Type.Results.List) > 0 {
			return nil, fmt.Errorf("go func literal with results")
		}
		if g.Call.Ellipsis.IsValid() {
			return nil, fmt.Errorf("go func literal called with ellipsis")
		}
		params := []*ast.Field{tokField}
		if lit.Type.Params != nil {
			params = append(params, lit.Type.Params.List...)
		}
		nl := &ast.FuncLit{
			Type: &ast.FuncType{Params: &ast.FieldList{List: params}},
			Body: &ast.BlockStmt{List: append(prologue, lit.Body.List...)},
		}
		args := append([]ast.Expr{call(sel("simrt", "Spawn"))}, g.Call.Args...)
		return &ast.GoStmt{Call: call(nl, args...)}, nil
	}
	n := len(g.Call.Args)
	if n > 5 || g.Call.Ellipsis.IsValid() {
		return nil, fmt.Errorf("go call with %d arguments / ellipsis not supported", n)
	}
	bind := call(sel("simrt", "Bind"+strconv.Itoa(n)), append([]ast.Expr{g.Call.Fun}, g.Call.Args...)...)
	fField := &ast.Field{Names: []*ast.Ident{ast.NewIdent("_f")}, Type: &ast.FuncType{Params: &ast.FieldList{}}}
	nl := &ast.FuncLit{
		Type: &ast.FuncType{Params: &ast.FieldList{List: []*ast.Field{tokField, fField}}},
		Body: &ast.BlockStmt{List: append(prologue, &ast.ExprStmt{X: call(ast.NewIdent("_f"))})},
	}
	return &ast.GoStmt{Call: call(nl, call(sel("simrt", "Spawn")), bind)}, nil
}

// select with >= 2 receive cases -> switch over simrt.SelectN
func rewriteSelect(s *ast.SelectStmt) (ast.Stmt, bool, error) {
	var comm []*ast.CommClause
	var def *ast.CommClause
	for _, c := range s.Body.List {
		cc := c.(*ast.CommClause)
		if cc.Comm == nil {
			def = cc
		} else {
			comm = append(comm, cc)
		}
	}
	if len(comm) < 2 {
		return s, false, nil
	}
	if len(comm) > 6 {
		return nil, false, fmt.Errorf("select with %d cases not supported", len(comm))
	}
	uniq++
	sv := ast.NewIdent("_s" + strconv.Itoa(uniq))
	var chans []ast.Expr
	var clauses []ast.Stmt
	for i, cc := range comm {
		var recv *ast.UnaryExpr
		var pre ast.Stmt
		vi := &ast.SelectorExpr{X: sv, Sel: ast.NewIdent("V" + strconv.Itoa(i))}
		oki := &ast.SelectorExpr{X: sv, Sel: ast.NewIdent("OK" + strconv.Itoa(i))}
		switch st := cc.Comm.(type) {
		case *ast.ExprStmt:
			u, ok := st.X.(*ast.UnaryExpr)
			if !ok || u.Op != token.ARROW {
				return nil, false, fmt.Errorf("select case is not a receive")
			}
			recv = u
		case *ast.AssignStmt:
			if len(st.Rhs) != 1 {
				return nil, false, fmt.Errorf("unexpected select assignment")
			}
			u, ok := st.Rhs[0].(*ast.UnaryExpr)
			if !ok || u.Op != token.ARROW {
				return nil, false, fmt.Errorf("select case is not a receive")
			}
			recv = u
			rhs := []ast.Expr{vi}
			if len(st.Lhs) == 2 {
				rhs = append(rhs, oki)
			}
			pre = &ast.AssignStmt{Lhs: st.Lhs, Tok: st.Tok, Rhs: rhs}
		case *ast.SendStmt:
			return nil, false, fmt.Errorf("select with a send case among several cases is not supported")
		default:
			return nil, false, fmt.Errorf("unknown select case shape")
		}
		chans = append(chans, recv.X)
		body := cc.Body
		if pre != nil {
			body = append([]ast.Stmt{pre}, body...)
		}
		clauses = append(clauses, &ast.CaseClause{
			List: []ast.Expr{&ast.BasicLit{Kind: token.INT, Value: strconv.Itoa(i)}},
			Body: body,
		})
	}
	nb := "false"
	if def != nil {
		nb = "true"
		clauses = append(clauses, &ast.CaseClause{List: nil, Body: def.Body})
	} else {
		// a blocking select always takes one of its cases; the default keeps the switch a terminating statement
		// where the select was one
		clauses = append(clauses, &ast.CaseClause{List: nil, Body: []ast.Stmt{
			&ast.ExprStmt{X: call(ast.NewIdent("panic"), &ast.BasicLit{Kind: token.STRING, Value: strconv.Quote("simrt: unreachable select outcome")})},
		}})
	}
	init := &ast.AssignStmt{
		Lhs: []ast.Expr{sv}, Tok: token.DEFINE,
		Rhs: []ast.Expr{call(sel("simrt", "Select"+strconv.Itoa(len(comm))), append([]ast.Expr{ast.NewIdent(nb)}, chans...)...)},
	}
	sw := &ast.SwitchStmt{Init: init, Tag: &ast.SelectorExpr{X: sv, Sel: ast.NewIdent("I")}, Body: &ast.BlockStmt{List: clauses}}
	return sw, true, nil
}

// for k, v := range M {B}  ->  for _, k := range simrt.SortedKeys(M) { v := M[k]; B }
func rewriteMapRange(r *ast.RangeStmt) {
	m := r.X
	key := r.Key
	val := r.Value
	if key == nil {
		key = ast.NewIdent("_k")
	}
	if id, ok := key.(*ast.Ident); ok && id.Name == "_" {
		key = ast.NewIdent("_k")
	}
	r.X = call(sel("simrt", "SortedKeys"), m)
	r.Value = key
	r.Key = ast.NewIdent("_")
	r.Tok = token.DEFINE
	if val != nil {
		if id, ok := val.(*ast.Ident); !ok || id.Name != "_" {
			assign := &ast.AssignStmt{Lhs: []ast.Expr{val}, Tok: token.DEFINE, Rhs: []ast.Expr{&ast.IndexExpr{X: m, Index: key}}}
			r.Body.List = append([]ast.Stmt{assign}, r.Body.List...)
		}
	}
}
