package main

var profiles = map[string]profile{
	// seqsim: one component + storage seam; no source rewriting, only accessors.
	"seqsim": {
		Files:   map[string]fileRule{},
		AddDirs: []string{"common"},
	},
}
