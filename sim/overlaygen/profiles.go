package main

var profiles = map[string]profile{
	// seqsim: one component + storage seam; no source rewriting, only accessors.
	"seqsim": {
		Files:   map[string]fileRule{},
		AddDirs: []string{"common"},
	},
	// schedsim for the transaction pool: every lock, go statement, select and timer of pkg/txpool is kernel-controlled.
	"txpool": {
		Files: map[string]fileRule{
			"pkg/txpool/txpool.go": {Swap: map[string]string{"sync": pSync, "time": pTime}, GoTasks: true, Selects: true, MapRanges: []string{"t.perAccount"}},
			"pkg/txpool/txlist.go": {Swap: map[string]string{"sync": pSync}},
		},
		AddDirs: []string{"common", "txpool"},
	},
	// schedsim for the p2p request/response layer, rate limiter and connection gater over the simulated libp2p host.
	"p2p": {
		Files: map[string]fileRule{
			"pkg/p2p/message_protocol.go":    {Swap: map[string]string{"sync": pSync, "time": pTime}, GoTasks: true, Selects: true},
			"pkg/p2p/conngater.go":           {Swap: map[string]string{"sync": pSync, "time": pTime}, GoTasks: true, Selects: true},
			"pkg/p2p/ratelimit.go":           {Swap: map[string]string{"sync": pSync, "time": pTime}, GoTasks: true, Selects: true},
			"pkg/p2p/message.go":             {Swap: map[string]string{"time": pTime, "github.com/google/uuid": pUUID}},
			"pkg/p2p/p2p.go":                 {Swap: map[string]string{"sync": pSync}},
			"pkg/p2p/peer.go":                {Swap: map[string]string{"sync": pSync}},
			"pkg/p2p/nat.go":                 {Swap: map[string]string{"sync": pSync}},
			"pkg/p2p/extended_connection.go": {Swap: map[string]string{"sync": pSync}},
			"pkg/p2p/gossipsub.go":           {Swap: map[string]string{"sync": pSync}},
			"pkg/p2p/peerbook.go":            {Swap: map[string]string{"sync": pSync}},
			"pkg/p2p/scoreKeeper.go":         {Swap: map[string]string{"sync": pSync}},
		},
		AddDirs: []string{"common", "p2p"},
	},
	// schedsim under -race for the shared chain data structures (C20).
	"chainrace": {
		Files: map[string]fileRule{
			"pkg/blockchain/block_cache.go":     {Swap: map[string]string{"sync": pSync}},
			"pkg/blockchain/data_access.go":     {Swap: map[string]string{"golang.org/x/sync/errgroup": pErrgroup}},
			"pkg/consensus/certificate/pool.go": {Swap: map[string]string{"sync": pSync}},
			"pkg/event/event.go":                {Swap: map[string]string{"sync": pSync}},
			"pkg/db/diffdb/db.go":               {Swap: map[string]string{"sync": pSync}},
			"pkg/consensus/sync/sync.go":        {Swap: map[string]string{"sync": pSync, "time": pTime}, GoTasks: true, Selects: true},
		},
		AddDirs: []string{"common"},
	},
}
