package main

var profiles = map[string]profile{
	// seqsim: one component + storage seam; no source rewriting, only accessors.
	"seqsim": {
		Files:   map[string]fileRule{},
		AddDirs: []string{"common"},
	},
	// schedsim for the transaction pool: every lock, go statement, select and timer of pkg/txpool is kernel-controlled.
	"txpool": {
		Files: map[string]fileRule{
			"pkg/txpool/txpool.go": {Swap: map[string]string{"sync": pSync, "time": pTime}, GoTasks: true, Selects: true, MapRanges: []string{"t.perAccount"}},
			"pkg/txpool/txlist.go": {Swap: map[string]string{"sync": pSync}},
		},
		AddDirs: []string{"common", "txpool"},
	},
	// schedsim for the p2p request/response layer, rate limiter and connection gater over the simulated libp2p host.
	"p2p": {
		Files: map[string]fileRule{
			"pkg/p2p/message_protocol.go":    {Swap: map[string]string{"sync": pSync, "time": pTime}, GoTasks: true, Selects: true},
			"pkg/p2p/conngater.go":           {Swap: map[string]string{"sync": pSync, "time": pTime}, GoTasks: true, Selects: true},
			"pkg/p2p/ratelimit.go":           {Swap: map[string]string{"sync": pSync, "time": pTime}, GoTasks: true, Selects: true},
			"pkg/p2p/message.go":             {Swap: map[string]string{"time": pTime, "github.com/google/uuid": pUUID}},
			"pkg/p2p/p2p.go":                 {Swap: map[string]string{"sync": pSync}},
			"pkg/p2p/peer.go":                {Swap: map[string]string{"sync": pSync}},
			"pkg/p2p/nat.go":                 {Swap: map[string]string{"sync": pSync}},
			"pkg/p2p/extended_connection.go": {Swap: map[string]string{"sync": pSync}},
			"pkg/p2p/gossipsub.go":           {Swap: map[string]string{"sync": pSync}},
			"pkg/p2p/peerbook.go":            {Swap: map[string]string{"sync": pSync}},
			"pkg/p2p/scoreKeeper.go":         {Swap: map[string]string{"sync": pSync}},
		},
		AddDirs: []string{"common", "p2p"},
	},
	// schedsim under -race for the shared chain data structures (C20).
	"chainrace": {
		Files: map[string]fileRule{
			"pkg/blockchain/block_cache.go":     {Swap: map[string]string{"sync": pSync}},
			"pkg/blockchain/data_access.go":     {Swap: map[string]string{"golang.org/x/sync/errgroup": pErrgroup}},
			"pkg/consensus/certificate/pool.go": {Swap: map[string]string{"sync": pSync}},
			"pkg/event/event.go":                {Swap: map[string]string{"sync": pSync}},
			"pkg/db/diffdb/db.go":               {Swap: map[string]string{"sync": pSync}},
			"pkg/consensus/sync/sync.go":        {Swap: map[string]string{"sync": pSync, "time": pTime}, GoTasks: true, Selects: true},
			// the block sync asks all peers for their tips from one goroutine per peer
			"pkg/consensus/sync/block_sync.go":     {Swap: map[string]string{"sync": pSync}, GoTasks: true},
			"pkg/consensus/sync/request.go":        {Swap: map[string]string{"time": pTime, "context": pCtx}, GoTasks: true, Selects: true},
			"pkg/consensus/sync/peer_selection.go": {Swap: map[string]string{"math/rand": pRand}},
		},
		AddDirs:    []string{"common"},
		ReplacePkg: map[string]string{"pkg/p2p": "chainstub/p2p"},
	},
	// chainsim: N whole nodes on a discrete-event loop. pkg/p2p is replaced by the stub; clocks, randomness and
	// request contexts are simulated; fork-join helpers run in call order so that results do not depend on the Go scheduler.
	"chainsim": {
		Files: map[string]fileRule{
			"pkg/consensus/execute.go":                {Swap: map[string]string{"time": pTime}, GoInline: true}, // the publish goroutine of processValidated runs in place
			"pkg/consensus/verify.go":                 {Swap: map[string]string{"time": pTime}},
			"pkg/consensus/certificate.go":            {Swap: map[string]string{"golang.org/x/sync/errgroup": pErrgroup}},
			"pkg/consensus/forkchoice/fork_choice.go": {Swap: map[string]string{"time": pTime}},
			"pkg/consensus/sync/sync.go":              {Swap: map[string]string{"time": pTime}},
			"pkg/consensus/sync/request.go":           {Swap: map[string]string{"time": pTime, "context": pCtx}},
			"pkg/consensus/sync/download.go":          {Swap: map[string]string{"go.uber.org/ratelimit": pRatelimit}},
			"pkg/consensus/sync/peer_selection.go":    {Swap: map[string]string{"math/rand": pRand}, MapRanges: []string{"frequency"}}, // ties between equally common ids are broken by map order
			"pkg/consensus/sync/block_sync.go":        {GoInline: true},
			"pkg/consensus/sync/fast_sync.go":         {GoInline: true},
			"pkg/blockchain/data_access.go":           {Swap: map[string]string{"golang.org/x/sync/errgroup": pErrgroup}},
			"pkg/generator/generator.go":              {Swap: map[string]string{"time": pTime}},
			"pkg/txpool/txpool.go":                    {Swap: map[string]string{"time": pTime}, MapRanges: []string{"t.perAccount"}}, // reorg's per-account goroutines stay real goroutines (they take the pool's write lock while reorg holds the read lock until they are all started, so they cannot run in place); their interleavings are C14's business, their effects are per account
			// the order of the entries inside a stored diff follows Go's map iteration; it has no meaning, but two nodes
			// that did the same thing must produce the same bytes for the database images to be comparable (C13)
			"pkg/db/diffdb/cachedb.go": {MapRanges: []string{"c.data"}},
		},
		AddDirs:    []string{"common", "chainsim"},
		ReplacePkg: map[string]string{"pkg/p2p": "chainstub/p2p"},
	},
}
