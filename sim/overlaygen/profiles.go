package main

var profiles = map[string]profile{
	// seqsim: one component + storage seam; no source rewriting, only accessors.
	"seqsim": {
		Files:   map[string]fileRule{},
		AddDirs: []string{"common"},
	},
	// schedsim for the transaction pool: every lock, go statement, select and timer of pkg/txpool is kernel-controlled.
	"txpool": {
		Files: map[string]fileRule{
			"pkg/txpool/txpool.go": {Swap: map[string]string{"sync": pSync, "time": pTime}, GoTasks: true, Selects: true, MapRanges: []string{"t.perAccount"}},
			"pkg/txpool/txlist.go": {Swap: map[string]string{"sync": pSync}},
		},
		AddDirs: []string{"common", "txpool"},
	},
}
